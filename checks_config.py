"""Per-property job tables for ./check. 'run' is a -test.run regex of the harness
test binary; shards apply to the thorough tier (rapid is single-core)."""

PROPS = {
    "C01": {
        "rule": ("rapid draws (Plenc config of 4) x (type definition: run-time struct/slice/map/pointer compositions with tag options, "
                 "json tags, skipped fields, plus compiled named/recursive/generic/embedded catalog types) x (1-3 boundary-biased values); "
                 "each value is marshalled and unmarshalled on a fresh and on a long-lived instance and compared with the documented "
                 "normalisation computed by the harness's own model. Non-trivial = the type has a composite and the value a non-zero leaf; "
                 "distinct by hash of (config, type, values)."),
        "jobs": [{"run": "^TestC01", "shards": 16, "timeout_quick": 600, "timeout_thorough": 3000}],
    },
}

# Properties not (yet) claimed, with the reason. Kept current by hand.
NOT_APPLICABLE = {p: "check not built yet in this commit (work in progress; the technique applies, see DESIGN.md)" for p in
                  ["C02", "C03", "C04", "C05", "C06", "C07", "C08", "C09", "C10", "C11", "C12", "C13", "C14", "C15", "C16", "C17", "C18", "C19", "C20"]}

# commits in /repo that add build-tag-guarded hooks
HOOK_COMMITS = []
