"""Per-property job tables for ./check. 'run' is a -test.run regex of the harness
test binary; shards apply to the thorough tier (rapid is single-core)."""

PROPS = {
    "C01": {
        "level_text": "Exploration: the round trip held on every generated (configuration, type definition, value) triple, compared with a normalisation model that never calls plenc. Types are the 'programs' here, so the search is over type definitions as much as values; boundaries of every varint / length encoding up to 2^21 are placed deliberately. It says nothing about types, sizes or values outside the generated ranges.",
        "rule": ("rapid draws (Plenc config of 4) x (type definition: run-time struct/slice/map/pointer compositions with tag options, "
                 "json tags, skipped fields, plus compiled named/recursive/generic/embedded catalog types) x (1-3 boundary-biased values); "
                 "each value is marshalled and unmarshalled on a fresh and on a long-lived instance and compared with the documented "
                 "normalisation computed by the harness's own model. Non-trivial = the type has a composite and the value a non-zero leaf; "
                 "distinct by hash of (config, type, values)."),
        "jobs": [{"run": "^TestC01", "shards": 64, "quick_shards": 4, "timeout_quick": 600, "timeout_thorough": 3000}],
    },
    "C02": {
        "level_text": 'Exploration against an independent reference encoder (self-tested on all 19 golden files each run): byte equality up to map order in both directions (encode, and decode with permuted / interleaved fields). Right level because the hazard is a consistent change to both directions, which a round trip cannot see but an independent definition of the format can.',
        "rule": ("same generator as C01 (config x type definition x values). Oracle: the harness's reference encoder, written from README/wire.go/"
                 "golden files and self-tested against all 19 golden files on every run; Marshal output must equal it byte for byte "
                 "(after sorting map entries with a strict type-guided walker when a map has >1 entry); and Unmarshal of the reference encoding "
                 "with struct fields permuted at every nesting level must give the normalised value. Non-trivial = the encoding has >=2 fields "
                 "or a container; distinct by hash of (config, type, values, permutation seed)."),
        "jobs": [{"run": "^TestC02", "shards": 64, "quick_shards": 4, "timeout_quick": 600, "timeout_thorough": 3000}],
    },
    "C18": {
        "level_text": 'Exploration with large exhaustive parts: all bit-length boundaries, all tags to index 4096, every byte string up to length 2 (quick) / 3 (thorough) through Skip, and in the thorough tier all 2^32 32-bit values; differential against encoding/binary. Exhaustive for those sub-spaces only.',
        "rule": ("(1) exhaustive: every 2^k, 2^k±1, 2^k±2 and the extremes as uint64/int64/negated; all tags for wire types 0..5 x indexes 0..4096 and "
                 "boundaries to 2^28; every byte string of length <=2 (quick) / <=3 (thorough) x wire types 0..7 through Skip; thorough: all 2^32 "
                 "32-bit values. (2) rapid: uniform 64-bit values, tags, and for Skip well-formed fields of every wire type followed by arbitrary "
                 "tails, every strict prefix of them, and arbitrary byte strings. Oracles: encoding/binary varints, closed-form size, protobuf "
                 "zig-zag formula, size law -2^(7k-1)<=x<2^(7k-1) <=> k bytes, Skip(field||tail)==len(field), truncated => error, "
                 "success => 0<=n<=len. Non-trivial = multi-byte value / non-varint wire type; enumerated cases are distinct by construction, "
                 "random ones by hash."),
        "jobs": [
            {"run": "^TestC18(Boundaries|Random|Skip|SkipExhaustive)$", "shards": 4, "timeout_quick": 600, "timeout_thorough": 3000},
            {"run": "^TestC18All32$", "shards": 16, "thorough_only": True, "timeout_thorough": 3000},
            {"run": "^$", "fuzz": "^FuzzC18Skip$", "fuzztime": "60s", "workers": 8, "shards": 1, "thorough_only": True, "timeout_thorough": 900},
        ],
    },
    "C05": {
        "level_text": 'Exploration of the codec laws on every codec reachable from generated types plus the exported codecs; deterministic algebraic oracle (Size == len(Append), framing identity, Read consumes the body).',
        "rule": ("same (config x type x values) generator as C01; for each case every codec reachable from CodecForType is obtained by walking "
                 "the type and asking plenc for the codec of each sub-type with its tag option, and applied to the matching sub-value "
                 "(respecting the callers' preconditions: tagged forms only when !Omit, map pointer on write). Laws: Size(nil)==len(Append(nil)); "
                 "Size(tag)==len(Append(tag)) for tags of 1-3 bytes; tagged length-delimited form == tag||varint(len(body))||body (one frame "
                 "per element in the repeated form); Read(body) consumes len(body); whole Marshal output walks to its exact end. A second "
                 "generator covers exported codecs (BQTimestampCodec alone and registered on an instance, TimeCodec, TimeCompatCodec, "
                 "InternedStringCodec; null codecs are reached through null-typed fields). Non-trivial = body of >=1 byte; distinct by case hash."),
        "jobs": [{"run": "^TestC05", "shards": 64, "quick_shards": 4, "timeout_quick": 600, "timeout_thorough": 3000}],
    },
    "C06": {
        "level_text": 'Exploration over (value, prefix, capacity mode, calling convention, repetitions) with the metamorphic oracle Marshal(buf,v) == buf || Marshal(nil,v).',
        "rule": ("(config x type x value) as C01 with extra weight on values that encode to nothing and on by-value pointer-shaped structs "
                 "(single pointer/map field, nested wrappers); x prefix of 0-40 arbitrary bytes x capacity mode {cap==len, +1, exact fit, "
                 "exact fit-1, large} x {by value, by pointer} x 1-4 repetitions re-using the returned buffer. Oracle: result == prefix || "
                 "Marshal(nil,&v) (up to map entry order via the walker when a map has >1 entry), caller's bytes below len untouched, value "
                 "unchanged. Non-trivial = non-empty prefix; distinct by case hash."),
        "jobs": [{"run": "^TestC06", "shards": 64, "quick_shards": 4, "timeout_quick": 600, "timeout_thorough": 3000}],
    },
    "C09": {
        "level_text": 'Exploration with a presence-focused generator; oracle at three levels (decoded presence, field occurrence in the bytes, Descriptor flags).',
        "rule": ("presence-focused generator: structs (nested up to 3 levels) whose fields are pointers to every leaf kind / small structs / "
                 "slices, the five null types, maps with pointer, null-typed and plain values (default and proto form), plus plain "
                 "counterparts; values weighted towards present-but-zero pointees (&0, &\"\", &[]T{}, &time.Time{}, &struct{}{}), zero map keys "
                 "and zero map values; 4 configs. Oracle: nil<=>nil and Valid<=>Valid at every position after a round trip and the pointee equals "
                 "the normalised pointee; a top-level field occurs in the bytes iff it is present (pointer/null) or non-zero (plain), read with "
                 "the harness's walker; Descriptor.ExplicitPresence is true exactly for pointer / null-typed fields and map values. "
                 "Non-trivial = at least one present position whose pointee is zero/empty; distinct by case hash."),
        "jobs": [{"run": "^TestC09", "shards": 32, "quick_shards": 4, "timeout_quick": 600, "timeout_thorough": 3000}],
    },
    "C11": {
        "level_text": 'Exploration with address-range and behavioural oracles (overwrite every caller buffer, re-check every result ever returned), including populated targets and long interning histories.',
        "rule": ("(config x type x 1-3 values) as C01 on a long-lived instance (interning tables / pools with history), input buffers with 0-64 bytes "
                 "of spare capacity, destination prefixes. Unmarshal: input bytes unchanged; no string / slice / map key reachable in the result "
                 "has its data inside [buf, buf+cap); the observed result is identical before and after the whole buffer is overwritten and "
                 "re-used for another Marshal; every earlier result is re-checked after later decodes. Marshal: value unchanged, destination "
                 "bytes below len unchanged, output shares no address range with any string/slice of the value and does not change when the "
                 "value's byte slices are overwritten. The same oracles run on the JSON-any codecs (map[string]any / []any trees at top level and as a "
                 "struct field; fresh target, the same target decoded into again so that every key is already present, and a target populated "
                 "with other data sharing some keys). Non-trivial = result holds >=1 non-empty string or slice; distinct by case hash."),
        "jobs": [{"run": "^TestC11", "shards": 48, "quick_shards": 4, "timeout_quick": 600, "timeout_thorough": 3000}],
    },
    "C03": {
        "level_text": "Exploration over generated schema edit scripts (remove / add / rename / reorder at every depth) with the expected result computed on the harness's value model; skipped wire forms are counted per kind. Holds on the pairs generated; hand-written pairs cover recursive types.",
        "rule": ("S = generated struct type (as C01, top-level struct, up to 8 fields) or a compiled catalog type; S' = S after a generated edit "
                 "script applied recursively inside nested structs, slice elements, map values and pointer targets: remove fields (every wire "
                 "type), add fields of any kind under indexes unused by S (including lower ones), rename, reorder declarations; plus hand-written "
                 "pairs for recursive catalog types. The S' target is pre-populated (added and skipped fields hold generated values, also inside "
                 "nested structs and behind pointers). Oracle: Unmarshal(Marshal_S(v), &s') == nil and s' equals the projection computed on the "
                 "harness's value model (shared indexes: value decoded as in S; others: prior value). Non-trivial = a removed field with a "
                 "non-zero value precedes a surviving non-zero field in the encoding; labels record the skipped wire forms; distinct by case hash. "
                 "One level down (time-unknown-fields): in plenc's own encoding of struct{int64; time.Time; string; []time.Time; int64} every time "
                 "message gets 0-3 extra fields (indexes 3..70000, every wire type, well-formed payloads) at generated positions and its two "
                 "known fields optionally swapped; the decode must equal the decode of the untouched bytes, under all four configurations."),
        "jobs": [{"run": "^TestC03", "shards": 64, "quick_shards": 4, "timeout_quick": 600, "timeout_thorough": 3000}],
    },
    "C10": {
        "level_text": 'Model-based (stateful) exploration: operation sequences against one long-lived instance with a merge model per target as invariant, including failed decodes in the history.',
        "rule": ("stateful / model-based: a case is (config, 1-3 generated struct types, 3-14 operations) run against one long-lived Plenc that also "
                 "carries the history of all earlier cases. Operations: marshal(v) into a buffer pool, newTarget(prior value), "
                 "decodeInto(existing target), decodeFresh, scribble (overwrite a used input buffer, then refill), remarshal into buf[:0]. "
                 "Model: one value per target updated with the harness's Merge rules (present overwrites, absent keeps, structs and non-nil "
                 "pointers recursively, slices hold exactly the encoded elements - appended in the repeated form -, maps merged by key). "
                 "Invariant after every step: every target equals its model (nil and empty slices interchangeable); every decodeFresh equals "
                 "the normalised value and the decode of a brand-new instance. Non-trivial = a decodeInto whose prior and data are both non-zero, "
                 "or a decodeFresh after >=2 earlier decodes of that type; distinct by hash of the whole operation sequence. Further operations: "
                 "decodeCorrupt (truncated / damaged input, result ignored) and reslice (the caller shortens a target's slices, keeping their "
                 "capacity). A second state machine does the same for the JSON-any codecs: 2-8 decodes of generated map[string]any / []any trees "
                 "(few distinct keys, nil elements) into one re-used target at top level or in a struct field, with reslice and fresh-target "
                 "steps; model: an array holds exactly the decoded elements, an object keeps its members and takes the decoded ones. On default-"
                 "mode instances a quarter of the decodeInto steps (types without maps) take the bytes a twin instance with "
                 "ProtoCompatibleArrays writes for the same value: the repeated form, which the default-mode reader appends."),
        "jobs": [{"run": "^TestC10", "shards": 48, "quick_shards": 4, "timeout_quick": 600, "timeout_thorough": 3000}],
    },
    "C12": {
        "level_text": 'Exploration across all four option combinations with an independent standard-protobuf reader, the reference encoder and a locality (metamorphic) check per switch.',
        "rule": ("struct types from the protobuf-expressible profile (indexes >=1, every map field tagged proto, no null types; slices, nested "
                 "structs, pointers, named and recursive catalog types allowed) x values without nil slice entries; every case is run under "
                 "all four option combinations. Oracles: (a) with both options on the bytes are accepted by an independent standard-protobuf "
                 "reader driven by a schema derived from the type (only wire types 0/1/2/5, known field numbers >=1, wire type matches kind, "
                 "every length exact, packed bodies end exactly, singular fields once, Timestamp{1,2} plain varints with nanos<1e9); (b) round "
                 "trip in each mode; (c) a default instance decodes the arrays-on bytes to the same value; (d) Marshal equals the reference "
                 "encoder for each configuration and top-level fields not containing a time / a slice of length-delimited elements are "
                 "byte-identical when the corresponding switch is flipped. Non-trivial = the protobuf form has >=1 repeated field or "
                 "Timestamp; distinct by case hash."),
        "jobs": [{"run": "^TestC12", "shards": 32, "quick_shards": 4, "timeout_quick": 600, "timeout_thorough": 3000}],
    },
    "C04": {
        "level_text": 'Exploration with exhaustive sub-spaces: every input up to 4 (quick) / 5 (thorough) symbols over a 16-byte alphabet against 45 catalog types is enumerated completely; beyond that truncations, structural mutations with hostile varints, random bytes and coverage-guided fuzzing. Oracle: no panic / fault / hang, bounded allocation, input untouched, read containment. Exhaustive only for the enumerated sub-space.',
        "rule": ("targets: a catalog of 45 representative types (incl. field indexes 8192 and 70000, a 12-field struct) (every leaf kind, packed/fixed/counted/proto slices, maps incl. struct keys and "
                 "pointer values, nested and recursive structs, both time codecs, null types) plus generated types (as C01). Inputs: (1) exhaustive: "
                 "every string of length <=4 (quick) / <=5 (thorough) over the alphabet {00 01 02 03 05 07 08 0a 0b 0d 10 12 1a 7f 80 ff} against "
                 "every catalog type in two configs; (2) every prefix of reference encodings of generated values; (3) rapid-driven structural "
                 "mutations of reference encodings (truncation, bit flips, hostile bytes, length/count fields replaced by boundary varints up to "
                 "2^64-1 and over-long ones, wire-type changes, splices, appended garbage) and raw random bytes; (4) thorough: native go fuzzing. "
                 "Each input is decoded by Unmarshal into a fresh target and by Descriptor.Read with a JSONOutput. Oracle: returns value or "
                 "error - no panic / fault (recovered with SetPanicOnFault), no hang (watchdog, confirmed in an isolated re-run), input unchanged, "
                 "bytes allocated <= 64KiB + (8*largest element size+64)*len(input) (512*len for the descriptor walk), and the same bytes followed "
                 "by different trailing garbage (and with cap==len) give the identical outcome (read containment). Non-trivial = input of >=2 "
                 "bytes that decodes successfully or derives from a valid encoding; enumerated inputs distinct by construction, others by hash."),
        "jobs": [
            {"run": "^TestC04(Mutated|Prefixes|JSONAny)$", "shards": 32, "quick_shards": 4, "timeout_quick": 600, "timeout_thorough": 3000},
            {"run": "^TestC04Exhaustive$", "shards": 16, "quick_shards": 4, "timeout_quick": 600, "timeout_thorough": 3000},
            {"run": "^$", "fuzz": "^FuzzC04$", "fuzztime": "120s", "workers": 8, "shards": 1, "thorough_only": True, "timeout_thorough": 900},
        ],
    },
    "C15": {
        "level_text": "Exploration over call trees from a grammar plus exhaustive single-byte strings; oracle is encoding/json's token stream, so validity and content are checked independently of the outputter's own formatting.",
        "rule": ("call trees from a grammar: value := Int64 | Uint64 | Float64 | Float32 | String | Bool | Time | Raw(number literal) | "
                 "object{(key,value)*} | array{value*}, depth <=6, width <=5, empty containers, strings and keys from a pool of JSON-hostile "
                 "values (quotes, backslashes, every C0 control, DEL, U+2028/9, astral, invalid UTF-8), arbitrary UTF-8, arbitrary bytes and - "
                 "exhaustively - every single byte 0..255 at start/middle/end; numbers boundary-biased, finite floats; histories of 1-4 documents "
                 "on one JSONOutput separated by Reset, some abandoned half-written. Oracle: json.Valid; encoding/json token stream (UseNumber) "
                 "equals the call tree in order (ints as decimal text, floats by ParseFloat equality, strings exact or with U+FFFD per invalid "
                 "byte, times by instant, raw literals verbatim); exactly one document; output on the re-used outputter byte-identical to a new "
                 "one. Non-trivial = depth >=2 with an empty container or a string needing escapes; distinct by tree hash."),
        "jobs": [{"run": "^TestC15", "shards": 16, "quick_shards": 4, "timeout_quick": 600, "timeout_thorough": 3000},
                 {"run": "^$", "fuzz": "^FuzzC15$", "fuzztime": "60s", "workers": 8, "shards": 1, "thorough_only": True, "timeout_thorough": 900}],
    },
    "C14": {
        "level_text": "Exploration over type definitions: plenc's Descriptor compared node by node with one derived from the definition alone. Descriptors are pure functions of the type, so the only limit is the generator's reach (F10 excludes recursive types).",
        "rule": ("type definitions only: generated struct/slice/map/pointer compositions (up to 8 fields per struct, json tags with and without "
                 "names/options, flat/intern/proto options, skipped and unexported fields, null types) and compiled named / generic / embedded "
                 "catalog types, under the 4 configs. Oracle: plenc's Descriptor compared node by node with the descriptor the harness derives from "
                 "the type definition alone (index, json-or-Go name, field type by wire encoding, Go struct type name, explicit presence, "
                 "timestamp / map / map-entry logical types, element count and order; the synthetic type name of map entries is not asserted). "
                 "Recursive types are excluded by construction and counted under the open finding F10. Non-trivial = >=3 encoded fields of >=2 "
                 "descriptor types; distinct by type hash."),
        "jobs": [{"run": "^TestC14", "shards": 32, "quick_shards": 4, "timeout_quick": 600, "timeout_thorough": 3000}],
    },
    "C13": {
        "level_text": 'Exploration: Descriptor-driven JSON compared with a JSON data-model rendering computed from the value, for the descriptor taken directly and restored through plenc and encoding/json. Recursive types are an open finding (F10) and excluded by construction.',
        "rule": ("(type x 1-2 values) from the accepted profile in the default configuration, finite floats, times in years 1..9999; excluded by "
                 "named predicates: proto-tagged fields (the Descriptor carries no marker for the repeated form), negative values in flat fields "
                 "narrower than 64 bits, json:\"-\", recursive types (open finding F10, counted). The Descriptor is used directly, after "
                 "Marshal/Unmarshal through plenc, and after a round trip through encoding/json (all three must be equal and give byte-identical "
                 "output). Oracle: Descriptor.Read succeeds; json.Valid; the parse (token stream, UseNumber) equals the harness's JSON data-model "
                 "rendering of the normalised value: structs as objects keyed by json-or-Go name with omitted fields absent, slices as arrays "
                 "element for element, string-keyed maps as objects and other maps as {key,value} lists (both as multisets), pointers as their "
                 "target (null when nil), times as RFC 3339 by instant, integers as exact decimal text, floats by ParseFloat equality, invalid "
                 "UTF-8 after U+FFFD replacement. Each case also walks with one outputter that is re-used (Reset before each walk) after a rejected "
                 "input, non-finite numbers or an unfinished walk, and must give the same bytes as a new one. One case in six that contains a "
                 "time runs on an instance with BQTimestampCodec registered for time.Time (whole microseconds; same expected JSON). "
                 "Non-trivial = output has a non-empty array or object; distinct by case hash."),
        "jobs": [{"run": "^TestC13", "shards": 32, "quick_shards": 4, "timeout_quick": 600, "timeout_thorough": 3000}],
    },
    "C16": {
        "level_text": 'Exploration over JSON-model trees in five positions with round-trip, neighbour-field, independent wire walk and descriptor oracles.',
        "rule": ("JSON-model trees: nil, bool, int (boundary-biased), float64 (by bits, incl. -0, NaN, Inf), strings (JSON-hostile pool, arbitrary "
                 "bytes), json.Number (valid and invalid text), []any and map[string]any to depth 5 / width 5 with empty keys and empty or nil "
                 "containers anywhere; the root is a container. Positions: top level by value and by pointer, struct field between two other "
                 "fields, read into and written through a *[]any field, and as an unknown field skipped by a struct lacking it. Oracle: fresh "
                 "instance with both codecs registered; decoded value equals the tree (nil and empty containers interchangeable, floats by bits); "
                 "neighbouring fields exact in every position; Size==len(Append) with and without tag; the bytes parse exactly under an "
                 "independent strict reader of the documented {key,type,value} entry format; Descriptor.Read gives valid JSON equal to the tree "
                 "(sub-check skipped, and labelled, when the tree holds a non-finite float or a json.Number that is not a JSON number). "
                 "Non-trivial = depth >=2 and >=3 distinct dynamic types; distinct by tree hash."),
        "jobs": [{"run": "^TestC16", "shards": 16, "quick_shards": 4, "timeout_quick": 600, "timeout_thorough": 3000}],
    },
    "C08": {
        "level_text": 'Exploration over type definitions with injected hazards; the must-refuse verdict is derived from the statement alone; any codec that is returned must pass a smoke round trip. Definitions outside the hazard grammar are not covered.',
        "rule": ("definitions from a hazard-injecting generator: structs whose fields are accepted types (as C01) or, with probability 1/6, a type "
                 "the statement says must be refused - every unsupported kind (complex, array, chan, func, interface, error, uintptr, "
                 "unsafe.Pointer) as field / pointer target / slice element / map key / map value, slices of float pointers, slices of slices of "
                 "length-delimited elements (also through pointers), slices of maps, maps of maps, pointers to maps - optionally buried under 1-2 "
                 "accepted wrappers; tags from a grammar (valid, missing, empty, non-numeric, negative, fractional, padded, hex, overflowing, "
                 "'+3', '03', trailing comma, duplicates, unknown / misplaced / combined options); unexported and '-' fields of any type "
                 "including unsupported kinds; compiled recursive types whose build fails late (unsupported kind, untagged field, duplicate "
                 "index). Each definition is asked for as T, *T, []T, struct{X T}, map[string]T and T again on one instance. Oracle: no panic; "
                 "definitions on the statement's must-refuse list (decided from the definition alone by the harness) give a non-empty error and "
                 "no codec, stably through the history; a codec that is returned passes a smoke round trip and a strict walk; encoding equals "
                 "that of the struct without its skipped fields, and skipped fields of a pre-filled target are unchanged by Unmarshal. "
                 "Non-trivial = the definition must be refused, or has skipped fields; distinct by definition hash."),
        "jobs": [{"run": "^TestC08", "shards": 32, "quick_shards": 4, "timeout_quick": 600, "timeout_thorough": 3000}],
    },
    "C17": {
        "level_text": 'Exploration over sets of instances with generated options and registrations; byte-exact oracle from the reference encoder parameterised per instance, plus non-interference after later registrations and equivalence of the package-level functions with a default instance.',
        "rule": ("sets of 2-4 instances with generated option bits and generated registrations of harness-defined marker codecs (a string-kind codec "
                 "that prefixes a per-registration marker byte for named type MStr; a varint codec adding a per-registration offset for named type "
                 "MInt, untagged and under the tag 'off'; BQTimestampCodec for time.Time), x a struct type placing those types as field, pointer "
                 "target, slice element, map key, map value, inside nested structs and slices of structs, with 'off'-tagged fields and pointer "
                 "fields, x a value. Oracle: for every instance Marshal equals, byte for byte, the reference encoder parameterised with exactly "
                 "that instance's options and registrations (exact type + tag takes precedence, unregistered named types fall back to their "
                 "kind), and round-trips; after a further instance registers different codecs every existing instance still produces the same "
                 "bytes; the package-level Marshal/Unmarshal/CodecForType agree with a fresh default-configured instance and with the plain "
                 "kind-based encoding. Values with multi-entry maps are skipped (byte-exact oracle). Sub-checks with hand-computed bytes: a codec "
                 "registered under (RefNode, \"ref\") for a recursive struct's own tagged self-reference, whatever type the instance meets first; "
                 "codecs registered through the package-level RegisterCodec / RegisterCodecWithTag (types used by this sub-check only) are used "
                 "by the package-level functions and by no instance created before or after. Non-trivial = >=2 instances whose expected "
                 "encodings differ; distinct by case hash."),
        "jobs": [{"run": "^TestC17", "shards": 32, "quick_shards": 4, "timeout_quick": 600, "timeout_thorough": 3000}],
    },
    "C07": {
        "level_text": 'Exploration over schedules: the harness owns the interleaving at instrumented yield points (rapid-drawn choice lists, plus complete enumeration of all <=1 / <=2-preemption schedules of two goroutines for fixed op pairs) and additionally runs free under the race detector. Interleavings inside runtime primitives or between instructions without a yield point are only seen by the race detector on the schedules that happened to run; no liveness claim.',
        "rule": ("schedules are generated inputs. (1) owned schedule: 2-4 goroutines, each with one op (Marshal / Unmarshal / CodecForType) on a type "
                 "of one family (self-recursive via slice, via pointer, via pointer slice, via map value; mutually recursive; 3-cycle; deep "
                 "non-recursive nesting; interned fields + struct-keyed maps), all on ONE fresh Plenc so every run is a first use; goroutines park "
                 "at the verif yield hooks (registry miss, before registry store, struct start / per field / before index / before publish, intern "
                 "miss, map key scratch) and a scheduler resumes one at a time following a rapid-drawn choice list (sparse preemptions), so a run "
                 "is a pure function of the case; additionally, for two goroutines, every schedule with <=1 (quick) / <=2 (thorough) preemptions "
                 "over 90 scheduling points is enumerated for fixed op pairs. (2) free-running: the same ops released from a barrier on fresh "
                 "instances under the race detector. Oracle: each op's result (bytes up to map order / decoded value / codec or error) equals "
                 "what it returns alone on a fresh instance, no panic, no deadlock, the shared instance still gives the sequential results "
                 "afterwards, no race report. Non-trivial = >=1 preemption at a codec-construction yield point; distinct by case hash "
                 "(enumerated schedules distinct by construction). (3) steady state: on a warmed-up shared instance 2-5 free-running goroutines repeat their own operation on their own type 1500 times (150 under the race detector), every result compared with the operation run alone."),
        "jobs": [
            {"run": "^TestC07Schedules$", "shards": 16, "quick_shards": 4, "timeout_quick": 600, "timeout_thorough": 3000},
            {"run": "^TestC07Enumerate$", "shards": 16, "quick_shards": 4, "timeout_quick": 600, "timeout_thorough": 3000},
            {"run": "^TestC07Race$", "shards": 4, "race": True, "timeout_quick": 600, "timeout_thorough": 3000},
            {"run": "^TestC07Steady$", "shards": 4, "quick_shards": 2, "timeout_quick": 600, "timeout_thorough": 3000},
        ],
    },
    "C19": {
        "level_text": 'Exploration over decode histories (sequential, owned schedule with a yield between table miss and insert, free-running under the race detector) with a twin type without the option as oracle; table sizes up to 1100 (quick) / 17000 (thorough) distinct strings.',
        "rule": ("twin run-time struct types identical except for the intern option (several interned string / named string / null.String fields, "
                 "interned fields inside slice elements, map values and behind pointers). Histories: per goroutine 2-8 values whose strings come "
                 "from a small alphabet (empty, shared prefixes, binary, 127/128/300 bytes, fresh random ones) so repeats after table growth are "
                 "common; every value is marshalled into ONE re-used buffer, decoded from it, and the whole buffer is overwritten before the next "
                 "call. Variants: sequential; 2-3 goroutines on one instance under the owned schedule (yield between table miss and insert); "
                 "2-8 free-running goroutines under the race detector. Oracle: each decode through the interned type equals the twin type's "
                 "decode; encodings byte-identical with and without the option; no decoded string points into the caller's buffer; every result "
                 "ever returned is re-checked after every later step. Non-trivial = >=3 distinct strings with a repeat after table growth and a "
                 "buffer overwrite in between (sequential) / a preemption at the intern-miss point (scheduled); distinct by history hash."),
        "jobs": [
            {"run": "^TestC19(Sequential|Schedules|LongHistory|HugeHistory)$", "shards": 16, "quick_shards": 4, "timeout_quick": 600, "timeout_thorough": 3000},
            {"run": "^TestC19Race$", "shards": 4, "race": True, "timeout_quick": 600, "timeout_thorough": 3000},
        ],
    },
    "C20": {
        "level_text": "Exploration over generated Go source files and flag combinations, executing the real binary; AST-level oracle for 'nothing but tags changed', per-field tag rules, gofmt fixed point, type check, plenc acceptance, idempotence. Sources are small and import nothing.",
        "plenctag": True,
        "rule": ("Go source files rendered from a generated model: 1-5 struct declarations (top-level, generic, function-local, var of anonymous "
                 "struct type, composite literal) with nested anonymous struct fields; fields single, multi-name, embedded (value and pointer), "
                 "unexported, blank, referring to other generated structs; tags absent, other keys only (json/sql '-' and options), existing plenc "
                 "(number, number+option, '-') alone or mixed with other keys, back-quoted and double-quoted, malformed (bad syntax, non-numeric "
                 "plenc); comments between fields; x the flags -w -json -sql -private each true / false / default. The real binary, built from "
                 "the tree under test on every run, is executed on a temp file. Oracle: never a Go panic trace / exit 2; on success the output "
                 "parses, is a gofmt fixed point, equals the input once all tags are stripped from both, type-checks; per field (ASTs walked in "
                 "parallel): untouchable fields (existing plenc, unexported under -private) keep their tag, eligible ones keep every other key "
                 "in order and gain exactly one plenc key, '-' iff excluded by the sql/json options in force, else an integer above every index "
                 "the struct had before and distinct within the resulting Go struct (multi-name fields expand to several fields); plenc builds "
                 "a codec for every fully modelled top-level struct of the output; a second run changes nothing; -w=false leaves the file "
                 "alone. Malformed tags (or a multi-name field that cannot get unique indexes) => non-zero exit with a message and the file "
                 "unchanged. One source in six is not gofmt-formatted (wide indentation, blank-line runs, trailing blanks). Several files in one run (two or three, the later ones often the same layout with other tags so that fields sit at "
                 "the same source positions): each file ends up exactly as a run on it alone leaves it, up to the first refused file, and the "
                 "standard output is the single runs' outputs in sequence. Non-trivial = a struct mixing tagged and untagged fields, a "
                 "multi-name field, or a non-top-level declaration; distinct by case hash."),
        "jobs": [{"run": "^TestC20(SeveralFiles)?$", "shards": 16, "quick_shards": 4, "timeout_quick": 600, "timeout_thorough": 3000}],
    },
}

# Properties not (yet) claimed, with the reason. Kept current by hand.
NOT_APPLICABLE = {p: "check not built yet in this commit (work in progress; the technique applies, see DESIGN.md)" for p in
                  []}

# commits in /repo that add build-tag-guarded hooks
HOOK_COMMITS = ["d7875c1", "4754e31"]
