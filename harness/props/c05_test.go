package props

import (
	"bytes"
	"encoding/binary"
	"fmt"
	"reflect"
	"testing"
	"time"
	"unsafe"

	"github.com/philpearl/plenc"
	"github.com/philpearl/plenc/plenccodec"
	"github.com/philpearl/plenc/plenccore"
	"pgregory.net/rapid"

	"verifharness/vh"
)

// C05: codec laws — Size == len(Append), tagged framing, Read consumes exactly
// the body — for every codec reachable from CodecForType and the exported ones.

type c05Case struct {
	c01Case
	TagIndex int `json:"tag_index"`
}

type codecLawCtx struct {
	x      *vh.Ctx
	tagIdx int
	n      int
	kinds  map[string]bool
	// unordered: the value under test contains a map with >1 entry
	unordered bool
}

// codecLaws checks one codec on one value. wptr is the pointer the codec gets
// on the write side, fresh allocates a zero target for the read side.
func codecLaws(lc *codecLawCtx, name string, c plenccodec.Codec, wptr unsafe.Pointer, fresh func() unsafe.Pointer, proto bool, elemCodec plenccodec.Codec, elems []unsafe.Pointer) *vh.Failure {
	// two encodings of a value holding a map with several entries may order
	// the entries differently: only lengths are comparable then
	same := bytes.Equal
	if lc.unordered {
		same = func(a, b []byte) bool { return len(a) == len(b) }
	}
	lc.n++
	lc.kinds[fmt.Sprintf("%T", c)] = true
	body := c.Append(nil, wptr, nil)
	if s := c.Size(wptr, nil); s != len(body) {
		return vh.Fail("C05/size-untagged", "%s (%T): Size(nil tag) = %d but Append wrote %d bytes (% x)", name, c, s, len(body), body)
	}
	// appending after a prefix gives the same bytes
	pre := []byte{0xEE, 0x01}
	if b2 := c.Append(pre, wptr, nil); !bytes.Equal(b2[:2], pre) || !same(b2[2:], body) {
		return vh.Fail("C05/append-prefix", "%s (%T): Append after a prefix differs: % x vs % x", name, c, b2, body)
	}
	if c.Omit(wptr) {
		return nil // callers never ask for the tagged form of an omitted value
	}
	wt := c.WireType()
	tag := plenccore.AppendTag(nil, wt, lc.tagIdx)
	tagged := c.Append(nil, wptr, tag)
	if s := c.Size(wptr, tag); s != len(tagged) {
		return vh.Fail("C05/size-tagged", "%s (%T): Size(tag % x) = %d but Append wrote %d bytes (% x)", name, c, tag, s, len(tagged), tagged)
	}
	var want []byte
	switch {
	case proto && elemCodec != nil:
		// repeated form: one frame per element, body = the element's untagged form
		for _, ep := range elems {
			eb := elemCodec.Append(nil, ep, nil)
			want = append(want, tag...)
			want = binary.AppendUvarint(want, uint64(len(eb)))
			want = append(want, eb...)
		}
	case proto:
		want = nil // proto map: entry bodies have no untagged form of their own; size law only
	case wt == plenccore.WTLength:
		want = append(append([]byte{}, tag...), binary.AppendUvarint(nil, uint64(len(body)))...)
		want = append(want, body...)
	default:
		want = append(append([]byte{}, tag...), body...)
	}
	if want != nil || (proto && elemCodec != nil) {
		if !same(tagged, want) {
			return vh.Fail("C05/framing", "%s (%T): tagged form % x is not tag+length+untagged body % x", name, c, tagged, want)
		}
	}
	if !proto {
		target := fresh()
		n, err := c.Read(body, target, wt)
		if err != nil {
			return vh.Fail("C05/read-error", "%s (%T): Read of its own body % x: %v", name, c, body, err)
		}
		if n != len(body) {
			return vh.Fail("C05/read-consumed", "%s (%T): Read consumed %d of a %d byte body (% x)", name, c, n, len(body), body)
		}
	}
	if len(body) > 0 {
		lc.x.NonTrivial()
	}
	return nil
}

// lawsOver walks type and value, checking the codec of every sub-type.
func lawsOver(lc *codecLawCtx, p *plenc.Plenc, cfg vh.Cfg, t *vh.TSpec, opt string, rv reflect.Value, path string, depth int) *vh.Failure {
	if depth > 6 {
		return nil
	}
	regOpt := opt
	if regOpt == "intern" {
		regOpt = ""
	}
	rt := rv.Type()
	c, err := p.CodecForTypeWithTag(rt, regOpt)
	if err != nil {
		return vh.Fail("C05/no-codec", "%s: CodecForTypeWithTag(%s, %q): %v", path, rt, regOpt, err)
	}
	u := t.Under()
	wptr := rv.Addr().UnsafePointer()
	fresh := func() unsafe.Pointer { return reflect.New(rt).UnsafePointer() }
	proto := false
	var elemCodec plenccodec.Codec
	var elems []unsafe.Pointer
	inner := u
	irv := rv
	for inner.Kind == vh.KPtr && !irv.IsNil() {
		irv = irv.Elem()
		inner = inner.Elem.Under()
	}
	switch inner.Kind {
	case vh.KMap:
		if inner == u {
			if rv.IsNil() {
				return nil
			}
			wptr = rv.UnsafePointer()
		}
		proto = opt == "proto"
	case vh.KSlice:
		if vh.IsProtoSlice(t, opt, cfg) && inner.Kind == vh.KSlice && irv.Kind() == reflect.Slice {
			proto = true
			ec, err := p.CodecForType(irv.Type().Elem())
			if err != nil {
				return vh.Fail("C05/no-codec", "%s elem: %v", path, err)
			}
			elemCodec = ec
			for i := 0; i < irv.Len(); i++ {
				elems = append(elems, irv.Index(i).Addr().UnsafePointer())
			}
		}
	}
	if u.Kind == vh.KPtr && inner.Kind == vh.KMap {
		return nil // pointer to map: not an accepted type
	}
	lc.unordered = hasMultiEntryMap(t, vh.FromReflect(t, rv))
	if f := codecLaws(lc, path+":"+t.String(), c, wptr, fresh, proto, elemCodec, elems); f != nil {
		return f
	}
	// recurse
	switch u.Kind {
	case vh.KPtr:
		if !rv.IsNil() {
			return lawsOver(lc, p, cfg, u.Elem, opt, rv.Elem(), path+".*", depth+1)
		}
	case vh.KSlice:
		for i := 0; i < rv.Len() && i < 3; i++ {
			if f := lawsOver(lc, p, cfg, u.Elem, "", rv.Index(i), fmt.Sprintf("%s[%d]", path, i), depth+1); f != nil {
				return f
			}
		}
	case vh.KMap:
		it := rv.MapRange()
		for i := 0; it.Next() && i < 3; i++ {
			k := reflect.New(rt.Key()).Elem()
			k.Set(it.Key())
			v := reflect.New(rt.Elem()).Elem()
			v.Set(it.Value())
			if f := lawsOver(lc, p, cfg, u.Key, "", k, path+"<key>", depth+1); f != nil {
				return f
			}
			if f := lawsOver(lc, p, cfg, u.Elem, "", v, path+"<value>", depth+1); f != nil {
				return f
			}
		}
	case vh.KStruct:
		for i, f := range u.Fields {
			_, fopt, ok := f.Enc()
			if !ok {
				continue
			}
			fv := rv.Field(i)
			if !fv.CanInterface() {
				fv = reflect.NewAt(fv.Type(), unsafe.Pointer(fv.UnsafeAddr())).Elem()
			}
			if fl := lawsOver(lc, p, cfg, f.Type, fopt, fv, path+"."+f.Name, depth+1); fl != nil {
				return fl
			}
		}
	}
	return nil
}

var c05 = &vh.Prop[c05Case]{
	ID: "C05", Name: "reachable-codecs",
	Gen: func(t *rapid.T) c05Case {
		idx := []int{1, 15, 16, 2047, 2048, 100000}[rapid.IntRange(0, 5).Draw(t, "tagidx")]
		return c05Case{c01Case: genTypedCase(t, 2), TagIndex: idx}
	},
	Run: func(c c05Case, x *vh.Ctx) *vh.Failure {
		vh.RequireOracle()
		x.Label("cfg:" + c.Cfg.String())
		p := vh.NewPlenc(c.Cfg)
		lc := &codecLawCtx{x: x, tagIdx: c.TagIndex, kinds: map[string]bool{}}
		for i, v := range c.Vals {
			rv := vh.ToReflect(c.T, v)
			if f := lawsOver(lc, p, c.Cfg, c.T, "", rv, fmt.Sprintf("v%d", i), 0); f != nil {
				return f
			}
			// the whole output walks to its precise end
			data, err := vh.MarshalVal(p, c.T, v)
			if err != nil {
				return vh.Fail("C05/marshal-error", "%v", err)
			}
			if _, err := vh.Canon(c.T, data, c.Cfg, nil); err != nil {
				return vh.Fail("C05/output-not-walkable", "Marshal output % x cannot be walked to its end: %v", data, err)
			}
		}
		for k := range lc.kinds {
			x.Label("codec:" + k)
		}
		return nil
	},
}

// exported codecs that are not reached through CodecForType on a default instance
type c05xCase struct {
	Which    string     `json:"which"`
	Time     vh.TimeVal `json:"time"`
	Str      []byte     `json:"str"`
	TagIndex int        `json:"tag_index"`
	InSlice  int        `json:"in_slice"`       // BQ: also as slice element / struct field via a registering instance
	Tree     *jany      `json:"tree,omitempty"` // JSON-any codecs
}

var c05x = &vh.Prop[c05xCase]{
	ID: "C05", Name: "exported-codecs",
	Gen: func(t *rapid.T) c05xCase {
		which := []string{"bq", "bq-instance", "interned", "timecompat", "time", "json", "json"}[rapid.IntRange(0, 6).Draw(t, "which")]
		if which == "json" {
			root := genJAny(t, rapid.IntRange(1, 4).Draw(t, "jdepth"))
			if root.K != "obj" && root.K != "arr" {
				if rapid.Bool().Draw(t, "jwrap") {
					root = jany{K: "arr", Kids: []jany{root}}
				} else {
					root = jany{K: "obj", Keys: [][]byte{genJString(t)}, Kids: []jany{root}}
				}
			}
			return c05xCase{Which: which, Tree: &root, TagIndex: []int{1, 16, 3000}[rapid.IntRange(0, 2).Draw(t, "ti")]}
		}
		tv := vh.GenVal(t, vh.T(vh.KTime), vh.VProfile{JSONTimes: true})
		sv := vh.GenVal(t, vh.T(vh.KString), vh.VProfile{})
		return c05xCase{Which: which, Time: *tv.T, Str: sv.S, TagIndex: []int{1, 16, 3000}[rapid.IntRange(0, 2).Draw(t, "ti")],
			InSlice: rapid.IntRange(1, 3).Draw(t, "n")}
	},
	Run: func(c c05xCase, x *vh.Ctx) *vh.Failure {
		x.Label("codec:" + c.Which)
		lc := &codecLawCtx{x: x, tagIdx: c.TagIndex, kinds: map[string]bool{}}
		tm := c.Time.Time()
		freshTime := func() unsafe.Pointer { return unsafe.Pointer(new(time.Time)) }
		switch c.Which {
		case "json":
			// the JSON-any codecs, on every container of the tree (nested ones included)
			var walk func(n *jany) *vh.Failure
			walk = func(n *jany) *vh.Failure {
				val := n.toGo()
				lc.unordered = hasMultiObj(n)
				switch n.K {
				case "obj":
					m, _ := val.(map[string]any)
					if m != nil {
						wptr := *(*unsafe.Pointer)(unsafe.Pointer(&m))
						if f := codecLaws(lc, "JSONMapCodec", plenccodec.JSONMapCodec{}, wptr, func() unsafe.Pointer { return unsafe.Pointer(new(map[string]any)) }, false, nil, nil); f != nil {
							return f
						}
					}
				case "arr":
					a, _ := val.([]any)
					if f := codecLaws(lc, "JSONArrayCodec", plenccodec.JSONArrayCodec{}, unsafe.Pointer(&a), func() unsafe.Pointer { return unsafe.Pointer(new([]any)) }, false, nil, nil); f != nil {
						return f
					}
				}
				for i := range n.Kids {
					if f := walk(&n.Kids[i]); f != nil {
						return f
					}
				}
				return nil
			}
			return walk(c.Tree)
		case "bq":
			return codecLaws(lc, "BQTimestampCodec", plenccodec.BQTimestampCodec{}, unsafe.Pointer(&tm), freshTime, false, nil, nil)
		case "time":
			return codecLaws(lc, "TimeCodec", plenccodec.TimeCodec{}, unsafe.Pointer(&tm), freshTime, false, nil, nil)
		case "timecompat":
			return codecLaws(lc, "TimeCompatCodec", plenccodec.TimeCompatCodec{}, unsafe.Pointer(&tm), freshTime, false, nil, nil)
		case "interned":
			s := string(c.Str)
			ic := plenccodec.StringCodec{}.WithInterning()
			return codecLaws(lc, "InternedStringCodec", ic, unsafe.Pointer(&s), func() unsafe.Pointer { return unsafe.Pointer(new(string)) }, false, nil, nil)
		case "bq-instance":
			// registered for time.Time on an instance: every codec plenc builds around it obeys the laws too
			p := &plenc.Plenc{}
			p.RegisterDefaultCodecs()
			p.RegisterCodec(reflect.TypeOf(time.Time{}), plenccodec.BQTimestampCodec{})
			ts := vh.StructOf(vh.F("A", 1, vh.T(vh.KTime)), vh.F("B", 2, vh.SliceOf(vh.T(vh.KTime))), vh.F("C", 3, vh.PtrOf(vh.T(vh.KTime))), vh.F("D", 4, vh.T(vh.KInt)))
			tval := vh.Val{T: &c.Time}
			var l []vh.Val
			for i := 0; i < c.InSlice; i++ {
				l = append(l, tval)
			}
			v := vh.Val{L: []vh.Val{tval, {L: l}, {P: &tval}, {I: 7}}}
			rv := vh.ToReflect(ts, v)
			if f := lawsOver(lc, p, vh.Cfg{}, ts, "", rv, "bq", 0); f != nil {
				return f
			}
			// and plenc can read back what it wrote, ending exactly
			data, err := p.Marshal(nil, rv.Addr().Interface())
			if err != nil {
				return vh.Fail("C05/marshal-error", "%v", err)
			}
			out := reflect.New(rv.Type())
			if err := p.Unmarshal(data, out.Interface()); err != nil {
				return vh.Fail("C05/bq-self-unreadable", "plenc cannot read its own output % x: %v", data, err)
			}
			got := vh.FromReflect(ts, out.Elem())
			if got.L[3].I != 7 {
				return vh.Fail("C05/bq-desync", "field after the timestamps decoded as %d, want 7 (bytes % x)", got.L[3].I, data)
			}
			x.NonTrivial()
		}
		return nil
	},
}

func init() { registrars = append(registrars, c05.Register, c05x.Register) }

func TestC05(t *testing.T)         { c05.Check(t, vh.N(15000, 30000)) }
func TestC05Exported(t *testing.T) { c05x.Check(t, vh.N(5000, 100000)) }
