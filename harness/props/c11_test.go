package props

import (
	"bytes"
	"reflect"
	"testing"
	"unsafe"

	"pgregory.net/rapid"

	"verifharness/vh"
)

// C11: no aliasing between caller buffers/values and plenc's results.

type c11Case struct {
	c01Case
	Spare  int    `json:"spare"`  // spare capacity behind the input
	Prefix []byte `json:"prefix"` // destination prefix on the Marshal side
}

type memRange struct {
	lo, hi uintptr
	what   string
}

// memRanges lists the backing memory of every string and slice reachable in rv.
func memRanges(rv reflect.Value, path string, out *[]memRange, depth int) {
	if depth > 12 {
		return
	}
	switch rv.Kind() {
	case reflect.String:
		if rv.Len() > 0 {
			s := rv.String()
			p := uintptr(unsafe.Pointer(unsafe.StringData(s)))
			*out = append(*out, memRange{p, p + uintptr(len(s)), path + " (string)"})
		}
	case reflect.Slice:
		if rv.Cap() > 0 {
			p := rv.Pointer()
			*out = append(*out, memRange{p, p + uintptr(rv.Cap())*rv.Type().Elem().Size(), path + " (slice)"})
		}
		if k := rv.Type().Elem().Kind(); k == reflect.Uint8 || k == reflect.Int || k == reflect.Float64 || k == reflect.Bool {
			return
		}
		for i := 0; i < rv.Len(); i++ {
			memRanges(rv.Index(i), path+"[]", out, depth+1)
		}
	case reflect.Ptr:
		if !rv.IsNil() {
			memRanges(rv.Elem(), path+".*", out, depth+1)
		}
	case reflect.Map:
		it := rv.MapRange()
		for it.Next() {
			memRanges(it.Key(), path+"<key>", out, depth+1)
			memRanges(it.Value(), path+"<value>", out, depth+1)
		}
	case reflect.Struct:
		for i := 0; i < rv.NumField(); i++ {
			f := rv.Field(i)
			if !f.CanInterface() && f.CanAddr() {
				f = reflect.NewAt(f.Type(), unsafe.Pointer(f.UnsafeAddr())).Elem()
			}
			memRanges(f, path+"."+rv.Type().Field(i).Name, out, depth+1)
		}
	}
}

func overlaps(r memRange, lo, hi uintptr) bool { return r.lo < hi && lo < r.hi }

func countStrings(rs []memRange) int { return len(rs) }

var c11 = &vh.Prop[c11Case]{
	ID: "C11", Name: "no-aliasing",
	Gen: func(t *rapid.T) c11Case {
		return c11Case{c01Case: genTypedCase(t, 3), Spare: rapid.IntRange(0, 64).Draw(t, "spare"),
			Prefix: rapid.SliceOfN(rapid.Byte(), 0, 16).Draw(t, "prefix")}
	},
	Run: func(c c11Case, x *vh.Ctx) *vh.Failure {
		x.Label("cfg:" + c.Cfg.String())
		for _, l := range vh.ShapeLabels(c.T) {
			x.Label(l)
		}
		p := longLivedPlenc(c.Cfg) // interning tables and pools with history
		rt := c.T.Build()
		type decoded struct {
			rv   reflect.Value
			want vh.Val
		}
		var earlier []decoded
		for i, v := range c.Vals {
			// ---- Marshal side
			src := vh.ToReflect(c.T, v)
			before := vh.FromReflect(c.T, src)
			dest := make([]byte, len(c.Prefix), len(c.Prefix)+c.Spare)
			copy(dest, c.Prefix)
			out, err := p.Marshal(dest, src.Addr().Interface())
			if err != nil {
				return vh.Fail("C11/marshal-error", "%v", err)
			}
			if d := vh.Diff(c.T, vh.FromReflect(c.T, src), before); d != "" {
				return vh.Fail("C11/marshal-modified-value", "value changed by Marshal at %s", d)
			}
			if !bytes.Equal(dest[:len(c.Prefix)], c.Prefix) {
				return vh.Fail("C11/marshal-modified-dest", "destination bytes below len changed")
			}
			var srcMem []memRange
			memRanges(src, "v", &srcMem, 0)
			if cap(out) > 0 {
				lo := uintptr(unsafe.Pointer(unsafe.SliceData(out)))
				hi := lo + uintptr(cap(out))
				for _, r := range srcMem {
					if overlaps(r, lo, hi) {
						return vh.Fail("C11/marshal-output-aliases-value", "Marshal output shares memory with %s", r.what)
					}
				}
			}
			outCopy := append([]byte{}, out...)
			scribbleBytes(src, 0)
			if !bytes.Equal(out, outCopy) {
				return vh.Fail("C11/marshal-output-aliases-value", "Marshal output changed when the value's byte slices were overwritten")
			}
			// ---- Unmarshal side
			data := outCopy[len(c.Prefix):]
			buf := make([]byte, len(data), len(data)+c.Spare)
			copy(buf, data)
			snapshot := append([]byte{}, buf...)
			target := reflect.New(rt)
			if err := p.Unmarshal(buf, target.Interface()); err != nil {
				return vh.Fail("C11/unmarshal-error", "% x: %v", buf, err)
			}
			if !bytes.Equal(buf, snapshot) {
				return vh.Fail("C11/unmarshal-modified-input", "input bytes changed by Unmarshal: % x -> % x", snapshot, buf)
			}
			var mem []memRange
			memRanges(target.Elem(), "out", &mem, 0)
			if cap(buf) > 0 {
				lo := uintptr(unsafe.Pointer(unsafe.SliceData(buf)))
				hi := lo + uintptr(cap(buf))
				for _, r := range mem {
					if overlaps(r, lo, hi) {
						return vh.Fail("C11/decoded-aliases-input", "decoded %s points into the input buffer", r.what)
					}
				}
			}
			got := vh.FromReflect(c.T, target.Elem())
			// overwrite and re-use the whole input buffer
			full := buf[:cap(buf)]
			for j := range full {
				full[j] = 0xA5
			}
			if _, err := p.Marshal(full[:0], src.Addr().Interface()); err != nil {
				return vh.Fail("C11/marshal-error", "%v", err)
			}
			for j := range full {
				full[j] ^= 0xFF
			}
			if d := vh.Diff(c.T, vh.FromReflect(c.T, target.Elem()), got); d != "" {
				return vh.Fail("C11/decoded-changes-with-input", "decoded value changed after the input buffer was overwritten, at %s", d)
			}
			if d := vh.Diff(c.T, got, vh.Normalise(c.T, v, c.Cfg)); d != "" {
				return vh.Fail("C11/decode-mismatch", "decoded value wrong at %s", d)
			}
			// decode the same bytes once more into the SAME (now populated) target from a second
			// buffer, then destroy that buffer too: merging into existing strings, map keys and
			// slices must not leave references to the input either
			buf2 := make([]byte, len(data), len(data)+c.Spare)
			copy(buf2, data)
			if err := p.Unmarshal(buf2, target.Interface()); err != nil {
				return vh.Fail("C11/unmarshal-error", "second decode into the same target: %v", err)
			}
			var mem2 []memRange
			memRanges(target.Elem(), "out", &mem2, 0)
			if cap(buf2) > 0 {
				lo := uintptr(unsafe.Pointer(unsafe.SliceData(buf2)))
				hi := lo + uintptr(cap(buf2))
				for _, r := range mem2 {
					if overlaps(r, lo, hi) {
						return vh.Fail("C11/decoded-aliases-input", "after decoding into a populated target, %s points into the input buffer", r.what)
					}
				}
			}
			got = vh.FromReflect(c.T, target.Elem())
			full2 := buf2[:cap(buf2)]
			for j := range full2 {
				full2[j] = 0x3C
			}
			if d := vh.Diff(c.T, vh.FromReflect(c.T, target.Elem()), got); d != "" {
				return vh.Fail("C11/decoded-changes-with-input", "value decoded into a populated target changed after the input buffer was overwritten, at %s", d)
			}
			earlier = append(earlier, decoded{target.Elem(), got})
			if len(mem) > 0 {
				x.NonTrivial()
			}
			_ = i
		}
		// every earlier result is still intact after the later decodes (table growth, pool reuse)
		for i, e := range earlier {
			if d := vh.Diff(c.T, vh.FromReflect(c.T, e.rv), e.want); d != "" {
				return vh.Fail("C11/decoded-changes-later", "result %d changed after later calls, at %s", i, d)
			}
		}
		return nil
	},
}

// scribbleBytes flips every byte of every []byte reachable in rv.
func scribbleBytes(rv reflect.Value, depth int) {
	if depth > 12 {
		return
	}
	switch rv.Kind() {
	case reflect.Slice:
		if rv.Type().Elem().Kind() == reflect.Uint8 {
			b := unsafe.Slice((*byte)(rv.UnsafePointer()), rv.Len())
			for i := range b {
				b[i] ^= 0xFF
			}
			return
		}
		for i := 0; i < rv.Len(); i++ {
			scribbleBytes(rv.Index(i), depth+1)
		}
	case reflect.Ptr:
		if !rv.IsNil() {
			scribbleBytes(rv.Elem(), depth+1)
		}
	case reflect.Struct:
		for i := 0; i < rv.NumField(); i++ {
			scribbleBytes(rv.Field(i), depth+1)
		}
	case reflect.Map:
		it := rv.MapRange()
		for it.Next() {
			scribbleBytes(it.Value(), depth+1)
		}
	}
}

func init() { registrars = append(registrars, c11.Register) }

func TestC11(t *testing.T) { c11.Check(t, vh.N(15000, 20000)) }
