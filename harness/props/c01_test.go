package props

import (
	"testing"

	"github.com/philpearl/plenc"
	"pgregory.net/rapid"

	"verifharness/vh"
)

// C01: Unmarshal(Marshal(v)) recovers v (up to the documented normalisations).

type c01Case struct {
	Cfg  vh.Cfg    `json:"cfg"`
	T    *vh.TSpec `json:"type"`
	Vals []vh.Val  `json:"vals"`
}

func acceptedProfile(cfg vh.Cfg) vh.Profile {
	return vh.Profile{Cfg: cfg, Null: true, Named: true, Maps: true, Opts: true, JSONTags: true, Skipped: true, TopStruct: cfg.ProtoArrays}
}

func genTypedCase(t *rapid.T, maxVals int) c01Case {
	cfg := vh.AllCfgs[rapid.IntRange(0, 3).Draw(t, "cfg")]
	ts := vh.GenType(t, acceptedProfile(cfg))
	n := rapid.IntRange(1, maxVals).Draw(t, "nvals")
	vals := make([]vh.Val, n)
	for i := range vals {
		vals[i] = vh.GenVal(t, ts, vh.VProfile{Cfg: cfg})
	}
	return c01Case{Cfg: cfg, T: ts, Vals: vals}
}

var longLived = map[vh.Cfg]*plenc.Plenc{}
var longLivedUses = map[vh.Cfg]int{}

// longLivedPlenc returns an instance shared by many cases (its registry,
// pools and interning tables carry history); it is replaced every few
// thousand uses to bound the memory its registry pins.
func longLivedPlenc(cfg vh.Cfg) *plenc.Plenc {
	longLivedUses[cfg]++
	p, ok := longLived[cfg]
	if !ok || longLivedUses[cfg]%1500 == 0 {
		p = vh.NewPlenc(cfg)
		longLived[cfg] = p
	}
	return p
}

var c01 = &vh.Prop[c01Case]{
	ID: "C01", Name: "roundtrip",
	Gen: func(t *rapid.T) c01Case { return genTypedCase(t, 3) },
	Run: func(c c01Case, x *vh.Ctx) *vh.Failure {
		x.Label("cfg:" + c.Cfg.String())
		for _, l := range vh.ShapeLabels(c.T) {
			x.Label(l)
		}
		fresh := vh.NewPlenc(c.Cfg)
		for i, v := range c.Vals {
			for _, l := range vh.ValueLabels(c.T, v) {
				x.Label(l)
			}
			want := vh.Normalise(c.T, v, c.Cfg)
			for which, p := range []*plenc.Plenc{fresh, longLivedPlenc(c.Cfg)} {
				data, err := vh.MarshalVal(p, c.T, v)
				if err != nil {
					return vh.Fail("C01/marshal-error", "value %d: Marshal: %v", i, err)
				}
				got, err := vh.UnmarshalFresh(p, c.T, data)
				if err != nil {
					return vh.Fail("C01/unmarshal-error", "value %d: Unmarshal(% x): %v", i, data, err)
				}
				if d := vh.Diff(c.T, got, want); d != "" {
					cls := "C01/mismatch"
					if which == 1 {
						cls = "C01/mismatch-long-lived-instance"
					}
					return vh.Fail(cls, "value %d (instance %d): decoded value differs from normalised input at %s\nbytes % x", i, which, d, data)
				}
			}
			if vh.HasComposite(c.T) && vh.HasNonZeroLeaf(v) {
				x.NonTrivial()
			}
		}
		return nil
	},
}

func init() { registrars = append(registrars, c01.Register) }

func TestC01(t *testing.T) {
	c01.Check(t, vh.N(20000, 30000))
}

// Two limits of the wire format for pointers that the generators leave out by
// construction (they are listed as open findings F25 / F26): a top-level nil
// pointer and the inner level of a pointer to a pointer have no presence marker.
type c01ExoticCase struct {
	Kind string `json:"kind"` // top-nil-pointer | pointer-to-pointer-nil-inner
}

var c01Exotic = &vh.Prop[c01ExoticCase]{
	ID: "C01", Name: "pointer-presence-limits",
	Run: func(c c01ExoticCase, x *vh.Ctx) *vh.Failure {
		p := vh.NewPlenc(vh.Cfg{})
		switch c.Kind {
		case "top-nil-pointer":
			ts := vh.PtrOf(vh.T(vh.KInt))
			v := vh.Val{Nil: true}
			data, err := vh.MarshalVal(p, ts, v)
			if err != nil {
				return vh.Fail("C01/marshal-error", "%v", err)
			}
			got, err := vh.UnmarshalFresh(p, ts, data)
			if err != nil {
				return vh.Fail("C01/unmarshal-error", "%v", err)
			}
			if !got.Nil {
				return vh.Fail("C01/exotic/top-level-nil-pointer", "a nil *int marshalled at top level (% x) reads back as a non-nil pointer", data)
			}
		case "pointer-to-pointer-nil-inner":
			ts := vh.StructOf(vh.F("PP", 1, vh.PtrOf(vh.PtrOf(vh.T(vh.KInt)))), vh.F("Z", 2, vh.T(vh.KInt)))
			v := vh.Val{L: []vh.Val{{P: &vh.Val{Nil: true}}, {I: 3}}}
			data, err := vh.MarshalVal(p, ts, v)
			if err != nil {
				return vh.Fail("C01/marshal-error", "%v", err)
			}
			got, err := vh.UnmarshalFresh(p, ts, data)
			if err != nil {
				return vh.Fail("C01/unmarshal-error", "%v", err)
			}
			if got.L[0].Nil {
				return vh.Fail("C01/exotic/pointer-to-pointer-nil-inner", "**int with a non-nil outer and nil inner pointer (% x) reads back with the outer pointer nil", data)
			}
		}
		return nil
	},
}

func init() { registrars = append(registrars, c01Exotic.Register) }
