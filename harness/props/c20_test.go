package props

import (
	"bytes"
	"fmt"
	"go/ast"
	"go/format"
	"go/parser"
	"go/token"
	"go/types"
	"os"
	"os/exec"
	"path/filepath"
	"strconv"
	"strings"
	"testing"
	"unicode"
	"unicode/utf8"

	"pgregory.net/rapid"

	"verifharness/vh"
)

// C20: plenctag only adds correct, unique, stable plenc tags and is idempotent.

type c20Field struct {
	Names    []string   `json:"names,omitempty"`
	Embedded string     `json:"embedded,omitempty"` // "Other" or "*Other"
	Type     string     `json:"type,omitempty"`     // Go source of the type ("" when Sub is set)
	Sub      *c20Struct `json:"sub,omitempty"`      // anonymous struct type
	Tag      string     `json:"tag,omitempty"`      // the tag literal including its quotes
	Comment  string     `json:"comment,omitempty"`
}

type c20Struct struct {
	Name   string     `json:"name,omitempty"`
	Kind   string     `json:"kind"` // top generic local var literal
	Fields []c20Field `json:"fields"`
}

type c20Case struct {
	Structs []c20Struct `json:"structs"`
	Args    []string    `json:"args"` // flags
	// Messy: the source is not gofmt-formatted (wide indentation, runs of blank lines, trailing blanks), so
	// the tool's output is shorter than its input
	Messy bool `json:"messy,omitempty"`
}

var c20Types = []string{"int", "string", "[]byte", "float64", "bool", "[]string", "map[string]int", "*int", "uint32", "[]int", "int64"}

var c20TypeSpec = map[string]*vh.TSpec{
	"int": vh.T(vh.KInt), "string": vh.T(vh.KString), "[]byte": vh.T(vh.KBytes), "float64": vh.T(vh.KFloat64), "bool": vh.T(vh.KBool),
	"[]string": vh.SliceOf(vh.T(vh.KString)), "map[string]int": vh.MapOf(vh.T(vh.KString), vh.T(vh.KInt)), "*int": vh.PtrOf(vh.T(vh.KInt)),
	"uint32": vh.T(vh.KUint32), "[]int": vh.SliceOf(vh.T(vh.KInt)), "int64": vh.T(vh.KInt64),
}

type c20gen struct {
	t         *rapid.T
	n         int
	malformed bool
}

func (g *c20gen) ident(exported bool) string {
	g.n++
	if rapid.IntRange(0, 7).Draw(g.t, "unicode-ident") == 0 {
		// identifiers whose first letter is not ASCII (1, 2 and 3 byte runes)
		if exported {
			return fmt.Sprintf("%s%d", pickS(g.t, []string{"Ü", "Ω", "É", "Ж", "Ḁ"}), g.n)
		}
		return fmt.Sprintf("%s%d", pickS(g.t, []string{"ü", "ω", "é", "ж", "ḁ"}), g.n)
	}
	if exported {
		return fmt.Sprintf("%c%d", "ABCDEFGXYZ"[rapid.IntRange(0, 9).Draw(g.t, "id")], g.n)
	}
	return fmt.Sprintf("%c%d", "abcdefgxyz"[rapid.IntRange(0, 9).Draw(g.t, "id")], g.n)
}

func (g *c20gen) tag(used *[]int, typ string) string {
	var parts []string
	switch rapid.IntRange(0, 9).Draw(g.t, "tagkind") {
	case 0, 1, 2, 3:
		return "" // no tag at all
	case 4:
		parts = []string{`json:"` + g.ident(false) + `"`}
	case 5:
		parts = []string{pickS(g.t, []string{`json:"-"`, `sql:"-"`, `json:"-" sql:"x"`, `sql:"-" json:"n,omitempty"`, `json:"-,"`, `db:"col,omitempty" json:",omitempty"`})}
	case 6, 7:
		// an existing plenc tag, alone or with others
		idx := rapid.IntRange(1, 40).Draw(g.t, "plidx")
		for containsInt(*used, idx) {
			idx++
		}
		*used = append(*used, idx)
		forms := []string{`plenc:"%d"`, `json:"k%d" plenc:"%[1]d"`, `plenc:"%d" json:"k%[1]d,omitempty"`}
		if typ == "int" || typ == "int64" || typ == "*int" {
			forms = append(forms, `plenc:"%d,flat"`)
		}
		if typ == "string" {
			forms = append(forms, `plenc:"%d,intern"`)
		}
		pl := pickS(g.t, forms)
		parts = []string{fmt.Sprintf(pl, idx)}
	case 8:
		parts = []string{`plenc:"-"`}
	default:
		if rapid.IntRange(0, 2).Draw(g.t, "malformed") == 0 {
			g.malformed = true
			return pickS(g.t, []string{"`json:a`", "`plenc:\"x\"`", "`json`", "`plenc:\"1.5\"`", "`json:\"a\" plenc`", "`:\"x\"`"})
		}
		parts = []string{`yaml:"y"`, `json:"j,string"`}
	}
	body := strings.Join(parts, " ")
	if rapid.IntRange(0, 11).Draw(g.t, "backquote") == 0 {
		// a value containing a backquote: such a tag can only be written (and re-written) as a double-quoted literal
		body = strings.TrimSpace(body + " doc:\"a`b\"")
	}
	if strings.Contains(body, "`") || rapid.IntRange(0, 4).Draw(g.t, "dq") == 0 {
		return strconv.Quote(body) // double-quoted form
	}
	return "`" + body + "`"
}

func pickS(t *rapid.T, xs []string) string { return xs[rapid.IntRange(0, len(xs)-1).Draw(t, "pick")] }

func containsInt(xs []int, x int) bool {
	for _, y := range xs {
		if y == x {
			return true
		}
	}
	return false
}

func (g *c20gen) structBody(depth int, others []string) []c20Field {
	n := rapid.IntRange(0, 6).Draw(g.t, "nfields")
	var fs []c20Field
	var used []int
	for i := 0; i < n; i++ {
		var f c20Field
		switch k := rapid.IntRange(0, 13).Draw(g.t, "fieldkind"); {
		case k == 0 && (len(others) > 0 || rapid.Bool().Draw(g.t, "embext")): // embedded
			// a local struct, a type of another package, a generic instantiation, an unexported type:
			// the field's name is the last identifier of the type name
			pool := append([]string{"time.Time", "sync.Mutex", "pkg.Box[int]", "pkg.Pair[int, string]", "Gen[int]", "Two[int, string]", "lower", "lower[int]", "pkg.lowerT"}, others...)
			pool = append(pool, others...)
			f.Embedded = pickS(g.t, pool)
			if rapid.Bool().Draw(g.t, "embptr") {
				f.Embedded = "*" + f.Embedded
			}
		case k == 1: // multi-name
			exp := rapid.IntRange(0, 3).Draw(g.t, "mnexp") != 0
			f.Names = []string{g.ident(exp), g.ident(exp)}
			if rapid.IntRange(0, 3).Draw(g.t, "three") == 0 {
				f.Names = append(f.Names, g.ident(exp))
			}
			f.Type = pickS(g.t, c20Types)
		case k == 2: // unexported
			f.Names = []string{g.ident(false)}
			f.Type = pickS(g.t, c20Types)
		case k == 3: // blank
			f.Names = []string{"_"}
			f.Type = "int"
		case k == 4 && depth < 2: // nested anonymous struct
			f.Names = []string{g.ident(true)}
			f.Sub = &c20Struct{Kind: "nested", Fields: g.structBody(depth+1, others)}
		case k == 5 && len(others) > 0: // reference to another struct
			f.Names = []string{g.ident(true)}
			f.Type = pickS(g.t, []string{"", "*", "[]"}) + pickS(g.t, others)
		default:
			f.Names = []string{g.ident(true)}
			f.Type = pickS(g.t, c20Types)
		}
		f.Tag = g.tag(&used, f.Type)
		if rapid.IntRange(0, 5).Draw(g.t, "comment") == 0 {
			f.Comment = pickS(g.t, []string{"// a comment", "// plenc:\"9\" not a tag", "/* block */"})
		}
		fs = append(fs, f)
	}
	return fs
}

func genC20(t *rapid.T) c20Case {
	g := &c20gen{t: t}
	var c c20Case
	n := rapid.IntRange(1, 5).Draw(t, "nstructs")
	var names []string
	for i := 0; i < n; i++ {
		kind := pickS(t, []string{"top", "top", "top", "generic", "local", "var", "literal"})
		s := c20Struct{Kind: kind, Name: fmt.Sprintf("S%d", i)}
		s.Fields = g.structBody(0, names)
		c.Structs = append(c.Structs, s)
		if kind == "top" {
			names = append(names, s.Name)
		}
	}
	c.Messy = rapid.IntRange(0, 5).Draw(t, "messy") == 0
	for _, fl := range []string{"w", "json", "sql", "private"} {
		switch rapid.IntRange(0, 2).Draw(t, "flag-"+fl) {
		case 0:
			c.Args = append(c.Args, "-"+fl+"=true")
		case 1:
			c.Args = append(c.Args, "-"+fl+"=false")
		}
	}
	return c
}

func renderFields(b *strings.Builder, fs []c20Field, indent string) {
	for _, f := range fs {
		if f.Comment != "" && strings.HasPrefix(f.Comment, "//") {
			fmt.Fprintf(b, "%s%s\n", indent, f.Comment)
		}
		b.WriteString(indent)
		if f.Embedded != "" {
			b.WriteString(f.Embedded)
		} else {
			b.WriteString(strings.Join(f.Names, ", "))
			b.WriteString(" ")
			if f.Sub != nil {
				b.WriteString("struct {\n")
				renderFields(b, f.Sub.Fields, indent+"\t")
				b.WriteString(indent + "}")
			} else {
				b.WriteString(f.Type)
			}
		}
		if f.Tag != "" {
			b.WriteString(" " + f.Tag)
		}
		if f.Comment != "" && !strings.HasPrefix(f.Comment, "//") {
			b.WriteString(" " + f.Comment)
		}
		b.WriteString("\n")
	}
}

func (c c20Case) render() string {
	var b strings.Builder
	b.WriteString("// Package p is generated.\npackage p\n\n")
	for _, s := range c.Structs {
		body := func() string {
			var sb strings.Builder
			sb.WriteString("struct {\n")
			renderFields(&sb, s.Fields, "\t")
			sb.WriteString("}")
			return sb.String()
		}
		switch s.Kind {
		case "top":
			fmt.Fprintf(&b, "// %s is a struct.\ntype %s %s\n\n", s.Name, s.Name, body())
		case "generic":
			fmt.Fprintf(&b, "type %s[T any] %s\n\nvar _ %s[int]\n\n", s.Name, body(), s.Name)
		case "local":
			fmt.Fprintf(&b, "func f%s() {\n\ttype local %s\n\t_ = local{}\n}\n\n", s.Name, body())
		case "var":
			fmt.Fprintf(&b, "var v%s %s\n\n", s.Name, body())
		default:
			fmt.Fprintf(&b, "var l%s = %s{}\n\n", s.Name, body())
		}
	}
	src, err := format.Source([]byte(b.String()))
	if err != nil {
		return b.String()
	}
	if c.Messy {
		// tags never contain a tab or a newline, so this only touches layout
		m := strings.ReplaceAll(string(src), "\t", "            ")
		m = strings.ReplaceAll(m, "\n\n", "\n\n\n\n   \n")
		return strings.ReplaceAll(m, "{\n", "{   \n")
	}
	return string(src)
}

// ---- tag parsing (conventional key:"value" pairs)

type tagPair struct{ key, val string }

func parseTagPairs(tag string) ([]tagPair, bool) {
	var out []tagPair
	for tag != "" {
		i := 0
		for i < len(tag) && tag[i] == ' ' {
			i++
		}
		tag = tag[i:]
		if tag == "" {
			break
		}
		i = 0
		for i < len(tag) && tag[i] > ' ' && tag[i] != ':' && tag[i] != '"' && tag[i] != 0x7f {
			i++
		}
		if i == 0 || i+1 >= len(tag) || tag[i] != ':' || tag[i+1] != '"' {
			return nil, false
		}
		name := tag[:i]
		tag = tag[i+1:]
		i = 1
		for i < len(tag) && tag[i] != '"' {
			if tag[i] == '\\' {
				i++
			}
			i++
		}
		if i >= len(tag) {
			return nil, false
		}
		qv := tag[:i+1]
		tag = tag[i+1:]
		v, err := strconv.Unquote(qv)
		if err != nil {
			return nil, false
		}
		out = append(out, tagPair{name, v})
	}
	return out, true
}

func fieldTagPairs(f *ast.Field) (pairs []tagPair, has bool, ok bool) {
	if f.Tag == nil {
		return nil, false, true
	}
	s, err := strconv.Unquote(f.Tag.Value)
	if err != nil {
		return nil, true, false
	}
	p, ok := parseTagPairs(s)
	return p, true, ok
}

func lookup(pairs []tagPair, key string) (string, bool) {
	for _, p := range pairs {
		if p.key == key {
			return p.val, true
		}
	}
	return "", false
}

func fieldName(f *ast.Field) string {
	if len(f.Names) > 0 {
		return f.Names[0].Name
	}
	t := f.Type
	for {
		switch x := t.(type) {
		case *ast.StarExpr:
			t = x.X
			continue
		case *ast.SelectorExpr:
			return x.Sel.Name
		case *ast.Ident:
			return x.Name
		case *ast.IndexExpr:
			t = x.X
			continue
		case *ast.IndexListExpr:
			t = x.X
			continue
		}
		return "?"
	}
}

func collectStructs(n ast.Node) []*ast.StructType {
	var out []*ast.StructType
	ast.Inspect(n, func(x ast.Node) bool {
		if s, ok := x.(*ast.StructType); ok {
			out = append(out, s)
		}
		return true
	})
	return out
}

func stripTagsAndFormat(fset *token.FileSet, f *ast.File) (string, error) {
	ast.Inspect(f, func(x ast.Node) bool {
		if fl, ok := x.(*ast.Field); ok {
			fl.Tag = nil
		}
		return true
	})
	var buf bytes.Buffer
	err := format.Node(&buf, fset, f)
	return buf.String(), err
}

func flagValue(args []string, name string, def bool) bool {
	v := def
	for _, a := range args {
		if a == "-"+name+"=true" {
			v = true
		}
		if a == "-"+name+"=false" {
			v = false
		}
	}
	return v
}

func typeChecks(src string) bool {
	fset := token.NewFileSet()
	f, err := parser.ParseFile(fset, "p.go", src, 0)
	if err != nil {
		return false
	}
	conf := types.Config{Error: func(error) {}}
	_, err = conf.Check("p", fset, []*ast.File{f}, nil)
	return err == nil
}

func runTool(bin string, args []string, file string) (stdout, stderr string, code int) {
	cmd := exec.Command(bin, append(append([]string{}, args...), file)...)
	var o, e bytes.Buffer
	cmd.Stdout, cmd.Stderr = &o, &e
	err := cmd.Run()
	code = 0
	if err != nil {
		code = -1
		if ee, ok := err.(*exec.ExitError); ok {
			code = ee.ExitCode()
		}
	}
	return o.String(), e.String(), code
}

var c20Dir string

func c20Run(c c20Case, x *vh.Ctx) *vh.Failure {
	bin := os.Getenv("VERIF_PLENCTAG")
	if bin == "" {
		return vh.Fail("harness/no-plenctag", "VERIF_PLENCTAG not set")
	}
	if c20Dir == "" {
		d, err := os.MkdirTemp("", "c20-")
		if err != nil {
			return vh.Fail("harness/tempdir", "%v", err)
		}
		c20Dir = d
	}
	src := c.render()
	file := filepath.Join(c20Dir, "in.go")
	if err := os.WriteFile(file, []byte(src), 0o644); err != nil {
		return vh.Fail("harness/write", "%v", err)
	}
	fsetIn := token.NewFileSet()
	inAST, err := parser.ParseFile(fsetIn, "in.go", src, parser.ParseComments)
	if err != nil {
		return vh.Fail("harness/generated-source-does-not-parse", "%v\n%s", err, src)
	}
	write := flagValue(c.Args, "w", true)
	jsonFlag := flagValue(c.Args, "json", false)
	sqlFlag := flagValue(c.Args, "sql", true)
	private := flagValue(c.Args, "private", true)
	x.Label("args:" + strings.Join(c.Args, " "))

	stdout, stderr, code := runTool(bin, c.Args, file)
	if strings.Contains(stderr, "panic:") || strings.Contains(stderr, "goroutine ") || code == 2 {
		cls := "C20/tool-panics"
		if strings.Contains(stderr, "index out of range [0]") {
			cls = "C20/tool-panics-embedded-field"
		}
		return vh.Fail(cls, "plenctag %v crashed (exit %d):\n%s\ninput:\n%s", c.Args, code, firstLines(stderr, 12), src)
	}
	after, _ := os.ReadFile(file)

	// inputs with malformed tags: an error is reported and nothing is written
	malformed := false
	multiName := false
	for _, st := range collectStructs(inAST) {
		for _, f := range st.Fields.List {
			pairs, has, ok := fieldTagPairs(f)
			if has && !ok {
				malformed = true
			}
			if v, ok := lookup(pairs, "plenc"); ok && v != "-" {
				if _, err := strconv.Atoi(strings.SplitN(v, ",", 2)[0]); err != nil {
					malformed = true
				}
			}
			name := fieldName(f)
			r, _ := utf8.DecodeRuneInString(name)
			if len(f.Names) > 1 && !(private && unicode.IsLower(r)) {
				if _, hasPl := lookup(pairs, "plenc"); !hasPl {
					multiName = true
				}
			}
		}
	}
	x.LabelIf(malformed, "malformed-tags")
	x.LabelIf(multiName, "multi-name-eligible")
	if code != 0 {
		if string(after) != src {
			return vh.Fail("C20/file-changed-on-error", "exit %d but the file was modified", code)
		}
		if strings.TrimSpace(stderr) == "" {
			return vh.Fail("C20/silent-failure", "exit %d with no message", code)
		}
		if malformed || multiName {
			x.Label("reported-error")
			x.NonTrivial()
			return nil // reporting an error for input it cannot tag correctly is the contract
		}
		return vh.Fail("C20/unexpected-error", "plenctag %v failed (exit %d) on well-formed input: %s\ninput:\n%s", c.Args, code, firstLines(stderr, 5), src)
	}
	if malformed {
		return vh.Fail("C20/malformed-tag-accepted", "input has a malformed tag but plenctag exited 0\ninput:\n%s", src)
	}
	var out string
	if write {
		out = string(after)
	} else {
		if string(after) != src {
			return vh.Fail("C20/file-changed-without-w", "-w=false but the file was modified")
		}
		out = strings.TrimSuffix(stdout, "\n")
	}
	fsetOut := token.NewFileSet()
	outAST, err := parser.ParseFile(fsetOut, "out.go", out, parser.ParseComments)
	if err != nil {
		return vh.Fail("C20/output-does-not-parse", "%v\noutput:\n%s", err, out)
	}
	if fm, err := format.Source([]byte(out)); err != nil || string(fm) != out {
		return vh.Fail("C20/output-not-gofmt", "output is not a fixed point of gofmt (%v)", err)
	}
	// per-field tag checks, walking both ASTs in parallel
	inS, outS := collectStructs(inAST), collectStructs(outAST)
	if len(inS) != len(outS) {
		return vh.Fail("C20/structure-changed", "%d struct types in, %d out", len(inS), len(outS))
	}
	mixed := false
	for si := range inS {
		fi, fo := inS[si].Fields.List, outS[si].Fields.List
		if len(fi) != len(fo) {
			return vh.Fail("C20/structure-changed", "struct %d: %d fields in, %d out", si, len(fi), len(fo))
		}
		maxBefore := 0
		tagged, untagged := 0, 0
		for _, f := range fi {
			pairs, _, _ := fieldTagPairs(f)
			if v, ok := lookup(pairs, "plenc"); ok {
				tagged++
				if n, err := strconv.Atoi(strings.SplitN(v, ",", 2)[0]); err == nil && n > maxBefore {
					maxBefore = n
				}
			} else {
				untagged++
			}
		}
		if tagged > 0 && untagged > 0 {
			mixed = true
		}
		seen := map[int]string{}
		for k := range fi {
			name := fieldName(fi[k])
			inPairs, _, _ := fieldTagPairs(fi[k])
			outPairs, _, okOut := fieldTagPairs(fo[k])
			if !okOut {
				return vh.Fail("C20/output-tag-malformed", "field %s: output tag %s does not parse", name, fo[k].Tag.Value)
			}
			r, _ := utf8.DecodeRuneInString(name)
			isPrivate := unicode.IsLower(r)
			_, hadPlenc := lookup(inPairs, "plenc")
			if (private && isPrivate) || hadPlenc {
				if !samePairs(inPairs, outPairs) {
					return vh.Fail("C20/untouchable-field-changed", "field %s (private=%v, had plenc=%v): tag %v became %v", name, isPrivate, hadPlenc, inPairs, outPairs)
				}
			} else {
				// every existing key kept, in order, plus exactly one plenc key
				var rest []tagPair
				npl := 0
				plv := ""
				for _, p := range outPairs {
					if p.key == "plenc" {
						npl++
						plv = p.val
					} else {
						rest = append(rest, p)
					}
				}
				if !samePairs(inPairs, rest) {
					return vh.Fail("C20/existing-tags-changed", "field %s: tags %v became %v", name, inPairs, rest)
				}
				if npl != 1 {
					return vh.Fail("C20/plenc-tag-missing", "eligible field %s has %d plenc keys after the run (args %v)", name, npl, c.Args)
				}
				excluded := false
				if v, ok := lookup(inPairs, "sql"); ok && sqlFlag && strings.SplitN(v, ",", 2)[0] == "-" {
					excluded = true
				}
				if v, ok := lookup(inPairs, "json"); ok && jsonFlag && strings.SplitN(v, ",", 2)[0] == "-" {
					excluded = true
				}
				if excluded != (plv == "-") {
					return vh.Fail("C20/exclusion-wrong", "field %s: plenc:%q but excluded-by-options=%v (args %v, tags %v)", name, plv, excluded, c.Args, inPairs)
				}
				if plv != "-" {
					n, err := strconv.Atoi(plv)
					if err != nil {
						return vh.Fail("C20/new-index-not-a-number", "field %s: plenc:%q", name, plv)
					}
					if n <= maxBefore {
						return vh.Fail("C20/new-index-not-fresh", "field %s got index %d, the struct already had indexes up to %d", name, n, maxBefore)
					}
					for _, nm := range fieldNames(fo[k]) {
						if prev, dup := seen[n]; dup {
							cls := "C20/duplicate-index"
							if len(fo[k].Names) > 1 {
								cls = "C20/duplicate-index-multi-name-field"
							}
							return vh.Fail(cls, "fields %s and %s of one struct both have plenc index %d\noutput:\n%s", prev, nm, n, out)
						}
						seen[n] = nm
					}
				}
			}
			if v, ok := lookup(outPairs, "plenc"); ok && hadPlenc && v != "-" {
				if n, err := strconv.Atoi(strings.SplitN(v, ",", 2)[0]); err == nil {
					for _, nm := range fieldNames(fo[k]) {
						_ = nm
					}
					if _, dup := seen[n]; !dup {
						seen[n] = name
					}
				}
			}
		}
	}
	// nothing but tags changed
	sIn, err1 := stripTagsAndFormat(fsetIn, inAST)
	sOut, err2 := stripTagsAndFormat(fsetOut, outAST)
	if err1 != nil || err2 != nil || sIn != sOut {
		return vh.Fail("C20/more-than-tags-changed", "with all tags removed the files differ (%v %v)\n--- in\n%s\n--- out\n%s", err1, err2, sIn, sOut)
	}
	if typeChecks(src) && !typeChecks(out) {
		return vh.Fail("C20/output-does-not-typecheck", "input type-checks, output does not\n%s", out)
	}
	// plenc accepts every fully modelled top-level struct of the output
	if f := c20PlencAccepts(out); f != nil {
		return f
	}
	// idempotent: a second run changes nothing
	file2 := filepath.Join(c20Dir, "again.go")
	os.WriteFile(file2, []byte(out), 0o644)
	_, stderr2, code2 := runTool(bin, append(append([]string{}, c.Args...), "-w=true"), file2)
	again, _ := os.ReadFile(file2)
	if code2 != 0 || string(again) != out {
		return vh.Fail("C20/not-idempotent", "second run (exit %d, %s) changed the file\n--- first\n%s\n--- second\n%s", code2, firstLines(stderr2, 3), out, again)
	}
	if mixed || multiName {
		x.NonTrivial()
	}
	for _, s := range c.Structs {
		if s.Kind != "top" {
			x.Label("decl:" + s.Kind)
			x.NonTrivial()
		}
	}
	return nil
}

func fieldNames(f *ast.Field) []string {
	if len(f.Names) == 0 {
		return []string{fieldName(f)}
	}
	var out []string
	for _, n := range f.Names {
		out = append(out, n.Name)
	}
	return out
}

func samePairs(a, b []tagPair) bool {
	if len(a) != len(b) {
		return false
	}
	for i := range a {
		if a[i] != b[i] {
			return false
		}
	}
	return true
}

func firstLines(s string, n int) string {
	ls := strings.Split(s, "\n")
	if len(ls) > n {
		ls = ls[:n]
	}
	return strings.Join(ls, "\n")
}

// c20PlencAccepts lifts the tags of each fully modelled top-level struct onto
// a run-time type and asks plenc for a codec.
func c20PlencAccepts(out string) *vh.Failure {
	fset := token.NewFileSet()
	f, err := parser.ParseFile(fset, "out.go", out, 0)
	if err != nil {
		return nil
	}
	for _, d := range f.Decls {
		gd, ok := d.(*ast.GenDecl)
		if !ok || gd.Tok != token.TYPE {
			continue
		}
		for _, sp := range gd.Specs {
			ts := sp.(*ast.TypeSpec)
			st, ok := ts.Type.(*ast.StructType)
			if !ok || ts.TypeParams != nil {
				continue
			}
			var fields []vh.Field
			modelled := true
			for _, fl := range st.Fields.List {
				var buf bytes.Buffer
				format.Node(&buf, fset, fl.Type)
				spec, ok := c20TypeSpec[buf.String()]
				if !ok || len(fl.Names) != 1 {
					// embedded fields, and multi-name fields (which can only have reached the
					// output with a tag the input already had), are not plenctag's doing
					modelled = false
					break
				}
				pairs, _, _ := fieldTagPairs(fl)
				for _, nm := range fl.Names {
					name := nm.Name
					if name == "_" {
						modelled = false
						break
					}
					r, _ := utf8.DecodeRuneInString(name)
					vf := vh.Field{Name: name, Type: spec, Unexported: !unicode.IsUpper(r)}
					if v, ok := lookup(pairs, "plenc"); ok {
						vf.HasPlenc, vf.Plenc = true, v
					}
					if v, ok := lookup(pairs, "json"); ok {
						vf.JSON = v
					}
					fields = append(fields, vf)
				}
			}
			if !modelled || len(fields) == 0 {
				continue
			}
			p := vh.NewPlenc(vh.Cfg{})
			if _, err := p.CodecForType(vh.StructOf(fields...).Build()); err != nil {
				cls := "C20/plenc-rejects-output"
				if strings.Contains(err.Error(), "Multiple fields") {
					cls = "C20/duplicate-index-multi-name-field"
				}
				return vh.Fail(cls, "plenc cannot build a codec for struct %s of the output: %v\noutput:\n%s", ts.Name.Name, err, out)
			}
		}
	}
	return nil
}

var c20 = &vh.Prop[c20Case]{ID: "C20", Name: "plenctag", Gen: genC20, Run: c20Run}

func init() { registrars = append(registrars, c20.Register) }

func TestC20(t *testing.T) {
	defer func() {
		if c20Dir != "" {
			os.RemoveAll(c20Dir)
		}
	}()
	c20.Check(t, vh.N(1200, 8000))
}
