package props

import (
	"bytes"
	"fmt"
	"reflect"
	"testing"
	"unsafe"

	"pgregory.net/rapid"

	"verifharness/vh"
)

// C11 for the JSON-any codecs (map[string]any / []any): same address-range and
// overwrite oracles as the typed check, on fresh and on populated targets.

type c11jCase struct {
	Tree   jany   `json:"tree"`  // obj or arr at the root
	Prior  jany   `json:"prior"` // same root kind; shares some keys with Tree
	Spare  int    `json:"spare"`
	Prefix []byte `json:"prefix"`
	Field  bool   `json:"field"` // as a struct field rather than at top level
}

func genRootJAny(t *rapid.T, obj bool) jany {
	for {
		n := genJAny(t, 3)
		if obj && n.K == "obj" && !n.Nil && len(n.Kids) > 0 {
			return n
		}
		if !obj && n.K == "arr" && !n.Nil && len(n.Kids) > 0 {
			return n
		}
		// construct rather than reject: wrap whatever was drawn
		if obj {
			k1, k2 := genJString(t), []byte("k")
			if string(k1) == string(k2) {
				k2 = []byte("k2") // members of one object have distinct keys
			}
			return jany{K: "obj", Keys: [][]byte{k1, k2}, Kids: []jany{n, genJAny(t, 2)}}
		}
		return jany{K: "arr", Kids: []jany{n, genJAny(t, 2)}}
	}
}

// snapshotAny renders a JSON-model value deterministically (fmt sorts map keys).
func snapshotAny(v any) string { return fmt.Sprintf("%#v", v) }

func anyRanges(v any) []memRange {
	var out []memRange
	anyMem(reflect.ValueOf(&v).Elem(), "out", &out, 0)
	return out
}

// anyMem is memRanges for values held in interfaces.
func anyMem(rv reflect.Value, path string, out *[]memRange, depth int) {
	if depth > 40 {
		return
	}
	switch rv.Kind() {
	case reflect.Interface:
		if !rv.IsNil() {
			anyMem(rv.Elem(), path, out, depth+1)
		}
	case reflect.String:
		if rv.Len() > 0 {
			s := rv.String()
			p := uintptr(unsafe.Pointer(unsafe.StringData(s)))
			*out = append(*out, memRange{p, p + uintptr(len(s)), path + " (string)"})
		}
	case reflect.Slice:
		if rv.Cap() > 0 {
			p := rv.Pointer()
			*out = append(*out, memRange{p, p + uintptr(rv.Cap())*rv.Type().Elem().Size(), path + " (slice)"})
		}
		for i := 0; i < rv.Len(); i++ {
			anyMem(rv.Index(i), path+"[]", out, depth+1)
		}
	case reflect.Map:
		it := rv.MapRange()
		for it.Next() {
			anyMem(it.Key(), path+"<key>", out, depth+1)
			anyMem(it.Value(), path+"<value>", out, depth+1)
		}
	case reflect.Ptr:
		if !rv.IsNil() {
			anyMem(rv.Elem(), path+".*", out, depth+1)
		}
	case reflect.Struct:
		for i := 0; i < rv.NumField(); i++ {
			anyMem(rv.Field(i), path+"."+rv.Type().Field(i).Name, out, depth+1)
		}
	}
}

func overlapAny(rs []memRange, b []byte) string {
	if cap(b) == 0 {
		return ""
	}
	lo := uintptr(unsafe.Pointer(unsafe.SliceData(b)))
	hi := lo + uintptr(cap(b))
	for _, r := range rs {
		if overlaps(r, lo, hi) {
			return r.what
		}
	}
	return ""
}

var c11JSON = &vh.Prop[c11jCase]{
	ID: "C11", Name: "json-any-no-aliasing",
	Gen: func(t *rapid.T) c11jCase {
		obj := rapid.Bool().Draw(t, "rootobj")
		c := c11jCase{Tree: genRootJAny(t, obj), Prior: genRootJAny(t, obj), Spare: rapid.IntRange(0, 64).Draw(t, "spare"),
			Prefix: rapid.SliceOfN(rapid.Byte(), 0, 8).Draw(t, "prefix"), Field: rapid.Bool().Draw(t, "field")}
		if obj {
			// the populated target already holds some of the keys that will be decoded
			for i := range c.Prior.Keys {
				if i < len(c.Tree.Keys) && rapid.Bool().Draw(t, "samekey") {
					dup := false
					for j := range c.Prior.Keys {
						if j != i && bytes.Equal(c.Prior.Keys[j], c.Tree.Keys[i]) {
							dup = true
						}
					}
					if !dup {
						c.Prior.Keys[i] = c.Tree.Keys[i]
					}
				}
			}
		}
		return c
	},
	Run: func(c c11jCase, x *vh.Ctx) *vh.Failure {
		p := newJSONPlenc()
		obj := c.Tree.K == "obj"
		// holder builds the value to marshal / the target to decode into, at top level or in a struct
		mk := func(n *jany) (ptr any, get func() any) {
			v := n.toGo()
			switch {
			case obj && c.Field:
				h := &c16WithMap{A: 3, B: "tail"}
				if v != nil {
					h.J = v.(map[string]any)
				}
				return h, func() any { return *h }
			case obj:
				m, _ := v.(map[string]any)
				return &m, func() any { return m }
			case c.Field:
				h := &c16WithArr{A: 3, B: "tail"}
				if v != nil {
					h.J = v.([]any)
				}
				return h, func() any { return *h }
			default:
				a, _ := v.([]any)
				return &a, func() any { return a }
			}
		}
		x.Label(fmt.Sprintf("root:%s field:%v", c.Tree.K, c.Field))
		// ---- Marshal side
		src, getSrc := mk(&c.Tree)
		before := snapshotAny(getSrc())
		dest := make([]byte, len(c.Prefix), len(c.Prefix)+c.Spare)
		copy(dest, c.Prefix)
		out, err := p.Marshal(dest, src)
		if err != nil {
			return vh.Fail("C11/marshal-error", "%v", err)
		}
		if snapshotAny(getSrc()) != before {
			return vh.Fail("C11/marshal-modified-value", "JSON-model value changed by Marshal")
		}
		if !bytes.Equal(dest[:len(c.Prefix)], c.Prefix) {
			return vh.Fail("C11/marshal-modified-dest", "destination bytes below len changed")
		}
		if w := overlapAny(anyRanges(getSrc()), out); w != "" {
			return vh.Fail("C11/marshal-output-aliases-value", "Marshal output shares memory with %s", w)
		}
		data := append([]byte{}, out[len(c.Prefix):]...)
		decodeInto := func(target any, get func() any, what string) *vh.Failure {
			buf := make([]byte, len(data), len(data)+c.Spare)
			copy(buf, data)
			if err := p.Unmarshal(buf, target); err != nil {
				return vh.Fail("C11/unmarshal-error", "%s: % x: %v", what, buf, err)
			}
			if !bytes.Equal(buf, data) {
				return vh.Fail("C11/unmarshal-modified-input", "%s: input bytes changed by Unmarshal", what)
			}
			if w := overlapAny(anyRanges(get()), buf); w != "" {
				return vh.Fail("C11/decoded-aliases-input", "%s: decoded %s points into the input buffer", what, w)
			}
			snap := snapshotAny(get())
			full := buf[:cap(buf)]
			for j := range full {
				full[j] = 0xA5
			}
			if _, err := p.Marshal(full[:0], src); err != nil {
				return vh.Fail("C11/marshal-error", "%v", err)
			}
			for j := range full {
				full[j] ^= 0xFF
			}
			if snapshotAny(get()) != snap {
				return vh.Fail("C11/decoded-changes-with-input", "%s: decoded JSON-model value changed after the input buffer was overwritten", what)
			}
			return nil
		}
		// ---- fresh target
		fresh, getFresh := mk(&jany{K: c.Tree.K, Nil: true})
		if f := decodeInto(fresh, getFresh, "fresh target"); f != nil {
			return f
		}
		if !c.Field {
			if err := janyEqual(&c.Tree, getFresh(), "$"); err != nil {
				return vh.Fail("C11/decode-mismatch", "fresh target: %v", err)
			}
		}
		// ---- the same target once more (every key already present), then a target populated with other data
		if f := decodeInto(fresh, getFresh, "same target again"); f != nil {
			return f
		}
		pop, getPop := mk(&c.Prior)
		if f := decodeInto(pop, getPop, "populated target"); f != nil {
			return f
		}
		if f := decodeInto(pop, getPop, "populated target again"); f != nil {
			return f
		}
		if len(anyRanges(getFresh())) > 0 {
			x.NonTrivial()
		}
		return nil
	},
}

func init() { registrars = append(registrars, c11JSON.Register) }

func TestC11JSONAny(t *testing.T) { c11JSON.Check(t, vh.N(8000, 20000)) }
