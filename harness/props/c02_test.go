package props

import (
	"bytes"
	"testing"

	"pgregory.net/rapid"

	"verifharness/vh"
)

// C02: Marshal output is exactly the documented encoding (up to map entry
// order) and Unmarshal accepts that encoding with fields in any order.

type c02Case struct {
	c01Case
	PermSeed uint64 `json:"perm_seed"`
}

func hasMultiEntryMap(t *vh.TSpec, v vh.Val) bool {
	for _, l := range vh.ValueLabels(t, v) {
		if l == "V:multi-entry-map" {
			return true
		}
	}
	return false
}

// permOrder derives a permutation of n items from a drawn seed (pure function).
func permOrder(seed uint64) func(n, depth int) []int {
	return func(n, depth int) []int {
		p := make([]int, n)
		for i := range p {
			p[i] = i
		}
		s := seed ^ (uint64(depth+1) * 0x9E3779B97F4A7C15)
		for i := n - 1; i > 0; i-- {
			s = s*6364136223846793005 + 1442695040888963407
			j := int((s >> 33) % uint64(i+1))
			p[i], p[j] = p[j], p[i]
		}
		return p
	}
}

var c02 = &vh.Prop[c02Case]{
	ID: "C02", Name: "wire-format",
	Gen: func(t *rapid.T) c02Case {
		return c02Case{c01Case: genTypedCase(t, 2), PermSeed: rapid.Uint64().Draw(t, "perm")}
	},
	Run: func(c c02Case, x *vh.Ctx) *vh.Failure {
		vh.RequireOracle()
		x.Label("cfg:" + c.Cfg.String())
		for _, l := range vh.ShapeLabels(c.T) {
			x.Label(l)
		}
		p := vh.NewPlenc(c.Cfg)
		for i, v := range c.Vals {
			got, err := vh.MarshalVal(p, c.T, v)
			if err != nil {
				return vh.Fail("C02/marshal-error", "value %d: %v", i, err)
			}
			ref := vh.RefEncode(c.T, v, c.Cfg)
			var st vh.WalkStats
			if hasMultiEntryMap(c.T, v) {
				x.Label("compare:canonical")
				cg, err := vh.Canon(c.T, got, c.Cfg, &st)
				if err != nil {
					return vh.Fail("C02/output-not-walkable", "value %d: Marshal output % x does not parse as the documented format: %v", i, got, err)
				}
				cr, err := vh.Canon(c.T, ref, c.Cfg, nil)
				if err != nil {
					return vh.Fail("harness/refenc-not-walkable", "reference encoding % x rejected by walker: %v", ref, err)
				}
				if !bytes.Equal(cg, cr) {
					return vh.Fail("C02/encoding-differs", "value %d: Marshal (canonical) % x\nreference (canonical) % x", i, cg, cr)
				}
			} else {
				x.Label("compare:byte-exact")
				if !bytes.Equal(got, ref) {
					return vh.Fail("C02/encoding-differs", "value %d: Marshal   % x\nreference % x", i, got, ref)
				}
				vh.Canon(c.T, got, c.Cfg, &st)
			}
			// decode side: the reference encoding with struct fields permuted at every level
			perm := vh.RefStructPermuted(c.T, v, c.Cfg, permOrder(c.PermSeed))
			out, err := vh.UnmarshalFresh(p, c.T, perm)
			if err != nil {
				return vh.Fail("C02/permuted-decode-error", "value %d: Unmarshal of reference encoding with permuted fields % x: %v", i, perm, err)
			}
			want := vh.Normalise(c.T, v, c.Cfg)
			if d := vh.Diff(c.T, out, want); d != "" {
				return vh.Fail("C02/permuted-decode-mismatch", "value %d: decoding permuted reference encoding % x differs at %s", i, perm, d)
			}
			if !bytes.Equal(perm, ref) {
				x.Label("permutation:non-identity")
			}
			if st.Fields >= 2 || st.Counted > 0 || st.LenFrames > 0 {
				x.NonTrivial()
			}
		}
		return nil
	},
}

func init() { registrars = append(registrars, c02.Register) }

func TestC02(t *testing.T) {
	c02.Check(t, vh.N(20000, 30000))
}
