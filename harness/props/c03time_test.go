package props

import (
	"encoding/binary"
	"fmt"
	"testing"
	"time"

	"pgregory.net/rapid"

	"verifharness/vh"
)

// C03, one level down: a time.Time is itself a nested message (1: seconds,
// 2: nanoseconds). Data in which that message carries further fields of any
// wire type - written by a later version or another implementation - and its
// known fields in any order decodes to the same instant, and the fields that
// follow the time are not desynchronised.

type c03tExtra struct {
	Index   int    `json:"index"`
	WT      int    `json:"wt"`
	Payload []byte `json:"payload"`
	At      int    `json:"at"` // insertion position among the fields of the time message
}

type c03tCase struct {
	Cfg   vh.Cfg       `json:"cfg"`
	T     vh.TimeVal   `json:"t"`
	A     int64        `json:"a"`
	B     string       `json:"b"`
	Swap  bool         `json:"swap"` // known fields in reverse order
	Extra []c03tExtra  `json:"extra"`
	Elems []vh.TimeVal `json:"elems"` // further times in a slice field, treated alike
}

type c03tStruct struct {
	A  int64       `plenc:"1"`
	T  time.Time   `plenc:"2"`
	B  string      `plenc:"3"`
	Ts []time.Time `plenc:"4"`
	C  int64       `plenc:"5"`
}

// splitVarintFields cuts a message that holds only varint fields into its fields.
func splitVarintFields(body []byte) ([][]byte, bool) {
	var out [][]byte
	for len(body) > 0 {
		_, n := binary.Uvarint(body)
		if n <= 0 {
			return nil, false
		}
		_, m := binary.Uvarint(body[n:])
		if m <= 0 {
			return nil, false
		}
		out = append(out, body[:n+m])
		body = body[n+m:]
	}
	return out, true
}

func (c *c03tCase) rewriteTime(body []byte) ([]byte, bool) {
	fields, ok := splitVarintFields(body)
	if !ok {
		return nil, false
	}
	if c.Swap && len(fields) == 2 {
		fields[0], fields[1] = fields[1], fields[0]
	}
	for _, e := range c.Extra {
		f := binary.AppendUvarint(nil, uint64(e.Index)<<3|uint64(e.WT))
		f = append(f, e.Payload...)
		at := e.At % (len(fields) + 1)
		fields = append(fields[:at], append([][]byte{f}, fields[at:]...)...)
	}
	var nb []byte
	for _, f := range fields {
		nb = append(nb, f...)
	}
	return nb, true
}

var c03Time = &vh.Prop[c03tCase]{
	ID: "C03", Name: "time-unknown-fields",
	Gen: func(t *rapid.T) c03tCase {
		g := vh.VProfile{JSONTimes: false}
		c := c03tCase{Cfg: vh.AllCfgs[rapid.IntRange(0, 3).Draw(t, "cfg")], T: *vh.GenVal(t, vh.T(vh.KTime), g).T,
			A: vh.GenVal(t, vh.T(vh.KInt64), g).I, B: string(genJString(t)), Swap: rapid.Bool().Draw(t, "swap")}
		for i := rapid.IntRange(0, 3).Draw(t, "nextra"); i > 0; i-- {
			wt := []int{vh.WTVarInt, vh.WT64, vh.WTLength, vh.WTSlice, vh.WT32}[rapid.IntRange(0, 4).Draw(t, "wt")]
			c.Extra = append(c.Extra, c03tExtra{Index: pickInt(t, "xi", []int{3, 4, 15, 16, 100, 2047, 2048, 70000}), WT: wt,
				Payload: genWellFormed(t, wt), At: rapid.IntRange(0, 5).Draw(t, "at")})
		}
		for i := rapid.IntRange(0, 3).Draw(t, "nelems"); i > 0; i-- {
			c.Elems = append(c.Elems, *vh.GenVal(t, vh.T(vh.KTime), g).T)
		}
		return c
	},
	Run: func(c c03tCase, x *vh.Ctx) *vh.Failure {
		p := vh.NewPlenc(c.Cfg)
		in := c03tStruct{A: c.A, T: c.T.Time(), B: c.B, C: -7}
		for _, e := range c.Elems {
			in.Ts = append(in.Ts, e.Time())
		}
		data, err := p.Marshal(nil, &in)
		if err != nil {
			return vh.Fail("C03/marshal-error", "%v", err)
		}
		var want c03tStruct
		if err := p.Unmarshal(data, &want); err != nil {
			return vh.Fail("C03/unmarshal-error", "unmodified data: %v", err)
		}
		// rewrite every time message: field 2 (length-delimited) and the elements of field 4
		var out []byte
		rewritten := 0
		rest := data
		for len(rest) > 0 {
			tag, n := binary.Uvarint(rest)
			if n <= 0 {
				return vh.Fail("harness/c03-time-walk", "cannot walk plenc's output % x", data)
			}
			idx, wt := int(tag>>3), int(tag&7)
			rest = rest[n:]
			switch {
			case idx == 2 && wt == vh.WTLength:
				l, m := binary.Uvarint(rest)
				nb, ok := c.rewriteTime(rest[m : m+int(l)])
				if !ok {
					return vh.Fail("harness/c03-time-walk", "time body is not a sequence of varint fields: % x", rest[m:m+int(l)])
				}
				out = binary.AppendUvarint(out, tag)
				out = binary.AppendUvarint(out, uint64(len(nb)))
				out = append(out, nb...)
				rest = rest[m+int(l):]
				rewritten++
			case idx == 4 && wt == vh.WTSlice:
				cnt, m := binary.Uvarint(rest)
				rest = rest[m:]
				out = binary.AppendUvarint(out, tag)
				out = binary.AppendUvarint(out, cnt)
				for i := uint64(0); i < cnt; i++ {
					l, m := binary.Uvarint(rest)
					nb, ok := c.rewriteTime(rest[m : m+int(l)])
					if !ok {
						return vh.Fail("harness/c03-time-walk", "time element is not a sequence of varint fields")
					}
					out = binary.AppendUvarint(out, uint64(len(nb)))
					out = append(out, nb...)
					rest = rest[m+int(l):]
					rewritten++
				}
			case idx == 4 && wt == vh.WTLength: // repeated form: one frame per element
				l, m := binary.Uvarint(rest)
				nb, ok := c.rewriteTime(rest[m : m+int(l)])
				if !ok {
					return vh.Fail("harness/c03-time-walk", "time element is not a sequence of varint fields")
				}
				out = binary.AppendUvarint(out, tag)
				out = binary.AppendUvarint(out, uint64(len(nb)))
				out = append(out, nb...)
				rest = rest[m+int(l):]
				rewritten++
			case wt == vh.WTVarInt:
				_, m := binary.Uvarint(rest)
				out = binary.AppendUvarint(out, tag)
				out = append(out, rest[:m]...)
				rest = rest[m:]
			case wt == vh.WTLength:
				l, m := binary.Uvarint(rest)
				out = binary.AppendUvarint(out, tag)
				out = append(out, rest[:m+int(l)]...)
				rest = rest[m+int(l):]
			default:
				return vh.Fail("harness/c03-time-walk", "unexpected field %d wt %d in plenc's output", idx, wt)
			}
		}
		var got c03tStruct
		if err := p.Unmarshal(out, &got); err != nil {
			return vh.Fail("C03/unknown-field-in-time-rejected", "time messages with %d extra field(s) %v (known fields swapped: %v): % x: %v", len(c.Extra), extraDesc(c.Extra), c.Swap, out, err)
		}
		same := got.A == want.A && got.B == want.B && got.C == want.C && got.T.Equal(want.T) && len(got.Ts) == len(want.Ts)
		for i := range want.Ts {
			same = same && i < len(got.Ts) && got.Ts[i].Equal(want.Ts[i])
		}
		if !same {
			return vh.Fail("C03/unknown-field-in-time-desynchronises", "extra fields %v in the time messages (swapped: %v): decoded %+v, without them %+v", extraDesc(c.Extra), c.Swap, got, want)
		}
		x.Label(fmt.Sprintf("extra:%d swap:%v times:%d", len(c.Extra), c.Swap, rewritten))
		if len(c.Extra) > 0 && rewritten > 0 {
			x.NonTrivial()
		}
		return nil
	},
}

func extraDesc(es []c03tExtra) string {
	s := ""
	for _, e := range es {
		s += fmt.Sprintf("[index %d wt %d len %d]", e.Index, e.WT, len(e.Payload))
	}
	return s
}

func init() { registrars = append(registrars, c03Time.Register) }

func TestC03TimeUnknownFields(t *testing.T) { c03Time.Check(t, vh.N(8000, 30000)) }
