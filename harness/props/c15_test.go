package props

import (
	"bytes"
	"encoding/json"
	"fmt"
	"io"
	"math"
	"strconv"
	"testing"
	"time"
	"unicode/utf8"

	"github.com/philpearl/plenc/plenccodec"
	"pgregory.net/rapid"

	"verifharness/vh"
)

// C15: the JSON outputter turns any well-nested call sequence into one valid
// JSON document whose parse equals the call tree; Reset gives a new outputter.

type jnode struct {
	K    string      `json:"k"` // int uint f64 f32 str bool time raw obj arr
	I    int64       `json:"i,omitempty"`
	U    uint64      `json:"u,omitempty"`
	F    uint64      `json:"f,omitempty"`
	S    []byte      `json:"s,omitempty"`
	B    bool        `json:"b,omitempty"`
	T    *vh.TimeVal `json:"t,omitempty"`
	Raw  string      `json:"raw,omitempty"`
	Kids []jnode     `json:"kids,omitempty"`
	Keys [][]byte    `json:"keys,omitempty"` // obj: one per kid
}

type c15Case struct {
	Docs []c15Doc `json:"docs"`
}

type c15Doc struct {
	Tree jnode `json:"tree"`
	// Abandon > 0: only the first Abandon calls are made, then Reset (a half-written document)
	Abandon int `json:"abandon,omitempty"`
	// NonFinite: the document also holds NaN / infinities (no JSON form: its output is not judged),
	// what matters is the document written after the next Reset
	NonFinite bool `json:"nonfinite,omitempty"`
}

var jsonStrings = []string{
	"", "a", "key", "\"", "\\", "\\\"", "/", "\b", "\f", "\n", "\r", "\t", "\x00", "\x01", "\x1f", "\x7f", " ", " ", "é", "日本", "😀",
	"�", "</script>", "a\"b\\c\nd", "\\u0041", "{}", "[]", ",", ":", " ", "\x1e\x1f ", "\xff", "\xc3", "\xc3\x28", "\xed\xa0\x80", "\xf4\x90\x80\x80", "a\x80b",
}

var rawNumbers = []string{"0", "-0", "1", "-1", "1.5", "1e10", "1E-7", "123456789012345678901234567890", "0.000001", "-1.0e+2", "9223372036854775808"}

func genJString(t *rapid.T) []byte {
	switch rapid.IntRange(0, 4).Draw(t, "strk") {
	case 0, 1:
		return []byte(jsonStrings[rapid.IntRange(0, len(jsonStrings)-1).Draw(t, "pool")])
	case 2:
		return []byte(rapid.StringN(0, 10, -1).Draw(t, "utf8"))
	case 3:
		return rapid.SliceOfN(rapid.Byte(), 0, 10).Draw(t, "bytes")
	default:
		// one arbitrary byte at the start, middle or end of an ASCII string
		b := rapid.Byte().Draw(t, "onebyte")
		switch rapid.IntRange(0, 2).Draw(t, "where") {
		case 0:
			return append([]byte{b}, "xy"...)
		case 1:
			return []byte{'x', b, 'y'}
		}
		return append([]byte("xy"), b)
	}
}

func genJNode(t *rapid.T, depth int) jnode {
	ws := []int{8, 3, 3}
	if depth <= 0 {
		ws = []int{8, 1, 1}
	}
	total := ws[0] + ws[1] + ws[2]
	r := rapid.IntRange(0, total-1).Draw(t, "node")
	switch {
	case r < ws[0]:
		g := vh.VProfile{NoNaN: true, JSONTimes: true}
		switch rapid.IntRange(0, 7).Draw(t, "scalar") {
		case 0:
			return jnode{K: "int", I: vh.GenVal(t, vh.T(vh.KInt64), g).I}
		case 1:
			return jnode{K: "uint", U: vh.GenVal(t, vh.T(vh.KUint64), g).U}
		case 2:
			return jnode{K: "f64", F: vh.GenVal(t, vh.T(vh.KFloat64), g).F}
		case 3:
			return jnode{K: "f32", F: vh.GenVal(t, vh.T(vh.KFloat32), g).F}
		case 4:
			return jnode{K: "str", S: genJString(t)}
		case 5:
			return jnode{K: "bool", B: rapid.Bool().Draw(t, "b")}
		case 6:
			tv := vh.GenVal(t, vh.T(vh.KTime), g).T
			if tv.Sec < vh.ZeroUnix+86400*366 { // RFC 3339 needs a 4-digit positive year
				tv.Sec = 86400 * 365
			}
			if rapid.IntRange(0, 9).Draw(t, "faryear") == 0 {
				// years RFC 3339 cannot express (any int64 second count can arrive in decoded data): the output must
				// still be one JSON string; its content is not judged
				tv.Sec = []int64{253402300800, 253402300799 + 86400*400, 1 << 40, vh.ZeroUnix - 86400*400, -(1 << 40)}[rapid.IntRange(0, 4).Draw(t, "far")]
			}
			return jnode{K: "time", T: tv}
		default:
			return jnode{K: "raw", Raw: rawNumbers[rapid.IntRange(0, len(rawNumbers)-1).Draw(t, "raw")]}
		}
	case r < ws[0]+ws[1]:
		n := rapid.IntRange(0, 5).Draw(t, "nkeys")
		o := jnode{K: "obj"}
		for i := 0; i < n; i++ {
			o.Keys = append(o.Keys, genJString(t))
			o.Kids = append(o.Kids, genJNode(t, depth-1))
		}
		return o
	default:
		n := rapid.IntRange(0, 5).Draw(t, "nelems")
		a := jnode{K: "arr"}
		for i := 0; i < n; i++ {
			a.Kids = append(a.Kids, genJNode(t, depth-1))
		}
		return a
	}
}

// genSpine buries inner under a deep chain of containers (depths around the
// word sizes a nesting stack might be packed into, and far beyond), each level
// an object or an array with a few scalar siblings before and after the deep child.
func genSpine(t *rapid.T, inner jnode) jnode {
	depth := []int{20, 31, 32, 33, 63, 64, 65, 66, 65, 100, 127, 128, 129, 200}[rapid.IntRange(0, 13).Draw(t, "spinedepth")]
	cur := inner
	for i := 0; i < depth; i++ {
		n := jnode{K: "arr"}
		if rapid.Bool().Draw(t, "spineobj") {
			n.K = "obj"
		}
		before := rapid.IntRange(0, 1).Draw(t, "sb")
		after := rapid.IntRange(0, 2).Draw(t, "sa")
		for j := 0; j < before+1+after; j++ {
			if j == before {
				n.Kids = append(n.Kids, cur)
			} else {
				n.Kids = append(n.Kids, jnode{K: "int", I: int64(i*10 + j)})
			}
			if n.K == "obj" {
				n.Keys = append(n.Keys, []byte(fmt.Sprintf("k%d", j)))
			}
		}
		cur = n
	}
	return cur
}

// emit makes the Outputter calls for a tree; budget limits the number of calls
// (for abandoned documents). It returns false when the budget ran out.
func emit(out plenccodec.Outputter, n *jnode, budget *int) bool {
	use := func() bool {
		if *budget == 0 {
			return false
		}
		if *budget > 0 {
			*budget--
		}
		return true
	}
	if !use() {
		return false
	}
	switch n.K {
	case "int":
		out.Int64(n.I)
	case "uint":
		out.Uint64(n.U)
	case "f64":
		out.Float64(math.Float64frombits(n.F))
	case "f32":
		out.Float32(math.Float32frombits(uint32(n.F)))
	case "str":
		out.String(string(n.S))
	case "bool":
		out.Bool(n.B)
	case "time":
		out.Time(n.T.Time())
	case "raw":
		out.Raw(n.Raw)
	case "obj":
		out.StartObject()
		for i := range n.Kids {
			if !use() {
				return false
			}
			out.NameField(string(n.Keys[i]))
			if !emit(out, &n.Kids[i], budget) {
				return false
			}
		}
		if !use() {
			return false
		}
		out.EndObject()
	case "arr":
		out.StartArray()
		for i := range n.Kids {
			if !emit(out, &n.Kids[i], budget) {
				return false
			}
		}
		if !use() {
			return false
		}
		out.EndArray()
	}
	return true
}

// jsonStringModel is what a JSON parser returns for the bytes s written as a
// string: invalid UTF-8 becomes U+FFFD per offending byte.
func jsonStringModel(s []byte) string {
	if utf8.Valid(s) {
		return string(s)
	}
	var b []byte
	for len(s) > 0 {
		r, size := utf8.DecodeRune(s)
		if r == utf8.RuneError && size == 1 {
			b = append(b, "�"...)
		} else {
			b = append(b, s[:size]...)
		}
		s = s[size:]
	}
	return string(b)
}

// matchTokens walks the decoder's token stream against the call tree.
func matchTokens(dec *json.Decoder, n *jnode, path string) *vh.Failure {
	tok, err := dec.Token()
	if err != nil {
		return vh.Fail("C15/parse-error", "%s: %v", path, err)
	}
	bad := func(want string) *vh.Failure {
		return vh.Fail("C15/parse-differs", "%s: parsed %T %v, the call was %s", path, tok, tok, want)
	}
	switch n.K {
	case "int":
		if num, ok := tok.(json.Number); !ok || string(num) != strconv.FormatInt(n.I, 10) {
			return bad(fmt.Sprintf("Int64(%d)", n.I))
		}
	case "uint":
		if num, ok := tok.(json.Number); !ok || string(num) != strconv.FormatUint(n.U, 10) {
			return bad(fmt.Sprintf("Uint64(%d)", n.U))
		}
	case "f64", "f32":
		want := math.Float64frombits(n.F)
		if n.K == "f32" {
			want = float64(math.Float32frombits(uint32(n.F)))
		}
		num, ok := tok.(json.Number)
		if !ok {
			return bad(fmt.Sprintf("Float(%v)", want))
		}
		got, err := strconv.ParseFloat(string(num), 64)
		if err != nil || got != want {
			return bad(fmt.Sprintf("Float(%v)", want))
		}
	case "str":
		if s, ok := tok.(string); !ok || s != jsonStringModel(n.S) {
			return bad(fmt.Sprintf("String(%q)", n.S))
		}
	case "bool":
		if b, ok := tok.(bool); !ok || b != n.B {
			return bad(fmt.Sprintf("Bool(%v)", n.B))
		}
	case "time":
		s, ok := tok.(string)
		if !ok {
			return bad("Time")
		}
		if y := n.T.Time().UTC().Year(); y > 9999 || y < 1 {
			break // not expressible in RFC 3339: a string token is all that is required
		}
		got, err := time.Parse(time.RFC3339Nano, s)
		if err != nil || !got.Equal(n.T.Time()) {
			return bad(fmt.Sprintf("Time(%v)", n.T.Time()))
		}
	case "raw":
		if num, ok := tok.(json.Number); !ok || string(num) != n.Raw {
			return bad("Raw(" + n.Raw + ")")
		}
	case "obj":
		if d, ok := tok.(json.Delim); !ok || d != '{' {
			return bad("StartObject")
		}
		for i := range n.Kids {
			kt, err := dec.Token()
			if err != nil {
				return vh.Fail("C15/parse-error", "%s key %d: %v", path, i, err)
			}
			if ks, ok := kt.(string); !ok || ks != jsonStringModel(n.Keys[i]) {
				return vh.Fail("C15/parse-differs", "%s: key %d parsed as %v, NameField(%q)", path, i, kt, n.Keys[i])
			}
			if f := matchTokens(dec, &n.Kids[i], fmt.Sprintf("%s.%q", path, n.Keys[i])); f != nil {
				return f
			}
		}
		et, err := dec.Token()
		if d, ok := et.(json.Delim); err != nil || !ok || d != '}' {
			return vh.Fail("C15/parse-differs", "%s: expected end of object, got %v %v", path, et, err)
		}
	case "arr":
		if d, ok := tok.(json.Delim); !ok || d != '[' {
			return bad("StartArray")
		}
		for i := range n.Kids {
			if f := matchTokens(dec, &n.Kids[i], fmt.Sprintf("%s[%d]", path, i)); f != nil {
				return f
			}
		}
		et, err := dec.Token()
		if d, ok := et.(json.Delim); err != nil || !ok || d != ']' {
			return vh.Fail("C15/parse-differs", "%s: expected end of array, got %v %v", path, et, err)
		}
	}
	return nil
}

type treeStats struct {
	depth, nodes, empty, escaped int
}

func treeShape(n *jnode, d int, st *treeStats) {
	st.nodes++
	if d > st.depth {
		st.depth = d
	}
	needsEscape := func(s []byte) bool {
		for _, c := range s {
			if c < 0x20 || c == '"' || c == '\\' || c >= 0x7f {
				return true
			}
		}
		return false
	}
	if n.K == "str" && needsEscape(n.S) {
		st.escaped++
	}
	if (n.K == "obj" || n.K == "arr") && len(n.Kids) == 0 {
		st.empty++
	}
	for i := range n.Kids {
		if n.K == "obj" && needsEscape(n.Keys[i]) {
			st.escaped++
		}
		treeShape(&n.Kids[i], d+1, st)
	}
}

func checkDoc(doc []byte, tree *jnode) *vh.Failure {
	if !json.Valid(doc) {
		return vh.Fail("C15/invalid-json", "output is not valid JSON: %q", doc)
	}
	dec := json.NewDecoder(bytes.NewReader(doc))
	dec.UseNumber()
	if f := matchTokens(dec, tree, "$"); f != nil {
		f.Msg += fmt.Sprintf("\noutput: %q", doc)
		return f
	}
	if _, err := dec.Token(); err != io.EOF {
		return vh.Fail("C15/more-than-one-document", "tokens after the document: %v in %q", err, doc)
	}
	return nil
}

var c15 = &vh.Prop[c15Case]{
	ID: "C15", Name: "json-outputter",
	Gen: func(t *rapid.T) c15Case {
		n := 1
		if rapid.IntRange(0, 2).Draw(t, "multi") == 0 {
			n = rapid.IntRange(2, 4).Draw(t, "ndocs")
		}
		var c c15Case
		for i := 0; i < n; i++ {
			d := c15Doc{Tree: genJNode(t, rapid.IntRange(0, 5).Draw(t, "depth"))}
			if rapid.IntRange(0, 39).Draw(t, "spine") == 0 {
				d.Tree = genSpine(t, d.Tree)
			}
			if i < n-1 && rapid.IntRange(0, 3).Draw(t, "abandon") == 0 {
				d.Abandon = rapid.IntRange(1, 12).Draw(t, "ncalls")
			} else if i < n-1 && rapid.IntRange(0, 3).Draw(t, "nonfinite") == 0 {
				d.NonFinite = true
				bad := []uint64{math.Float64bits(math.NaN()), math.Float64bits(math.Inf(1)), math.Float64bits(math.Inf(-1))}[rapid.IntRange(0, 2).Draw(t, "nf")]
				nf := jnode{K: "f64", F: bad}
				if rapid.Bool().Draw(t, "nf32") {
					nf = jnode{K: "f32", F: uint64(math.Float32bits(float32(math.Float64frombits(bad))))}
				}
				d.Tree = jnode{K: "arr", Kids: []jnode{nf, d.Tree}}
			}
			c.Docs = append(c.Docs, d)
		}
		return c
	},
	Run: func(c c15Case, x *vh.Ctx) *vh.Failure {
		var shared plenccodec.JSONOutput
		for i := range c.Docs {
			d := &c.Docs[i]
			if i > 0 {
				shared.Reset()
				x.Label("after-reset")
			}
			if d.Abandon > 0 {
				b := d.Abandon
				emit(&shared, &d.Tree, &b)
				x.Label("abandoned-document")
				continue
			}
			unlimited := -1
			emit(&shared, &d.Tree, &unlimited)
			got := append([]byte{}, shared.Done()...)
			if d.NonFinite {
				x.Label("non-finite-document")
				continue
			}
			var fresh plenccodec.JSONOutput
			unlimited = -1
			emit(&fresh, &d.Tree, &unlimited)
			want := fresh.Done()
			if f := checkDoc(want, &d.Tree); f != nil {
				return f
			}
			if !bytes.Equal(got, want) {
				return vh.Fail("C15/reset-not-like-new", "document %d on a re-used outputter differs from a new outputter:\n%q\n%q", i, got, want)
			}
			var st treeStats
			treeShape(&d.Tree, 0, &st)
			x.Label(fmt.Sprintf("depth:%d", st.depth))
			x.LabelIf(st.empty > 0, "empty-container")
			x.LabelIf(st.escaped > 0, "escaped-string")
			if st.depth >= 2 && (st.empty > 0 || st.escaped > 0) {
				x.NonTrivial()
			}
		}
		return nil
	},
}

// every single byte value at the start, middle and end of strings and keys
func TestC15AllBytes(t *testing.T) {
	st := vh.NewStats("C15", "all-single-bytes")
	n := int64(0)
	for b := 0; b < 256; b++ {
		for pos := 0; pos < 3; pos++ {
			s := []byte("ab")
			switch pos {
			case 0:
				s = append([]byte{byte(b)}, s...)
			case 1:
				s = []byte{'a', byte(b), 'b'}
			default:
				s = append(s, byte(b))
			}
			tree := jnode{K: "obj", Keys: [][]byte{s}, Kids: []jnode{{K: "arr", Kids: []jnode{{K: "str", S: s}, {K: "str", S: []byte{byte(b)}}}}}}
			c := c15Case{Docs: []c15Doc{{Tree: tree}}}
			if f := c15.Try(c); f != nil {
				t.Fatalf("C15/all-single-bytes %s", f.Error())
			}
			n++
		}
	}
	st.AddEnumerated(n, n)
	st.AddSample(map[string]any{"strings": "every byte 0..255 at start / middle / end of a key and of a string, and alone"})
	st.SetExhaustive("single-bytes", map[string]any{"exhaustive": true, "bytes": 256, "positions": 3})
}

func init() { registrars = append(registrars, c15.Register) }

func TestC15(t *testing.T) { c15.Check(t, vh.N(40000, 400000)) }
