package props

import (
	"fmt"
	"testing"

	"pgregory.net/rapid"

	"verifharness/vh"
)

// C03: data marshalled from S decodes into any S' obtained by removing,
// adding (fresh indexes), renaming and reordering fields, at any depth.

type c03Case struct {
	Cfg   vh.Cfg    `json:"cfg"`
	S     *vh.TSpec `json:"s"`
	S2    *vh.TSpec `json:"s2"`
	V     vh.Val    `json:"v"`
	Prior vh.Val    `json:"prior"` // prior content of the S' target
}

type evolver struct {
	t       *rapid.T
	cfg     vh.Cfg
	removed int
	added   int
	renamed int
	nameN   int
}

// usedIndexes collects the indexes of a struct's encoded fields.
func usedIndexes(u *vh.TSpec) map[int]bool {
	m := map[int]bool{}
	for _, f := range u.Fields {
		if idx, _, ok := f.Enc(); ok {
			m[idx] = true
		}
	}
	return m
}

// evolveType returns the evolved counterpart of a type (only run-time structs evolve).
func (e *evolver) evolveType(s *vh.TSpec, depth int) *vh.TSpec {
	switch s.Kind {
	case vh.KStruct:
		return e.evolveStruct(s, depth)
	case vh.KPtr:
		return vh.PtrOf(e.evolveType(s.Elem, depth))
	case vh.KSlice:
		return vh.SliceOf(e.evolveType(s.Elem, depth))
	case vh.KMap:
		return vh.MapOf(s.Key, e.evolveType(s.Elem, depth)) // keys are not evolved
	}
	return s
}

func (e *evolver) evolveStruct(s *vh.TSpec, depth int) *vh.TSpec {
	used := usedIndexes(s)
	var fs []vh.Field
	for _, f := range s.Fields {
		if _, _, ok := f.Enc(); !ok {
			if rapid.Bool().Draw(e.t, "keepskipped") {
				fs = append(fs, f)
			}
			continue
		}
		if rapid.IntRange(0, 3).Draw(e.t, "remove") == 0 {
			e.removed++
			continue
		}
		nf := f
		nf.Type = e.evolveType(f.Type, depth+1)
		if rapid.IntRange(0, 3).Draw(e.t, "rename") == 0 {
			e.nameN++
			nf.Name = fmt.Sprintf("Ren%d", e.nameN)
			e.renamed++
		}
		fs = append(fs, nf)
	}
	nadd := rapid.IntRange(0, 2).Draw(e.t, "nadd")
	for i := 0; i < nadd; i++ {
		idx := rapid.IntRange(0, 40).Draw(e.t, "newidx")
		for used[idx] {
			idx++
		}
		used[idx] = true
		ft, opt := vh.GenFieldType(e.t, vh.Profile{Cfg: e.cfg, Null: true, Named: true, Maps: true, Opts: true, MaxDepth: 2}, 1)
		e.nameN++
		nf := vh.F(fmt.Sprintf("Add%d", e.nameN), idx, ft)
		if opt != "" {
			nf.Plenc += "," + opt
		}
		fs = append(fs, nf)
		e.added++
	}
	// reorder declarations
	perm := rapid.Permutation(fs).Draw(e.t, "order")
	return vh.StructOf(perm...)
}

// priorFor builds the prior content of the S' target: generated values in
// added fields (reachable without going through containers), zero elsewhere.
func (e *evolver) priorFor(s, s2 *vh.TSpec) vh.Val {
	su, du := s.Under(), s2.Under()
	if du.Kind != vh.KStruct || su.Kind != vh.KStruct {
		return vh.ZeroVal(s2)
	}
	srcByIdx := map[int]*vh.TSpec{}
	for _, f := range su.Fields {
		if idx, _, ok := f.Enc(); ok {
			srcByIdx[idx] = f.Type
		}
	}
	out := vh.ZeroVal(s2)
	for j, f := range du.Fields {
		idx, _, ok := f.Enc()
		if !ok {
			// skipped fields of the target must survive untouched: give them content
			out.L[j] = vh.GenVal(e.t, f.Type, vh.VProfile{Cfg: e.cfg, Small: true})
			continue
		}
		st, shared := srcByIdx[idx]
		if !shared {
			out.L[j] = vh.GenVal(e.t, f.Type, vh.VProfile{Cfg: e.cfg, Small: true})
			continue
		}
		switch {
		case f.Type.Under().Kind == vh.KStruct && st.Under().Kind == vh.KStruct:
			out.L[j] = e.priorFor(st, f.Type)
		case f.Type.Under().Kind == vh.KPtr && f.Type.Under().Elem.Under().Kind == vh.KStruct && st.Under().Kind == vh.KPtr && rapid.Bool().Draw(e.t, "priorptr"):
			p := e.priorFor(st.Under().Elem, f.Type.Under().Elem)
			out.L[j] = vh.Val{P: &p}
		}
	}
	return out
}

type c03Pair struct{ s, s2 string }

var c03CatalogPairs = []c03Pair{{"Tree", "TreeV2"}, {"List", "ListV2"}, {"Mid", "MidV2"}, {"TreeV2", "Tree"}, {"MidV2", "Mid"}}

func wireTypeLabel(t *vh.TSpec, opt string, cfg vh.Cfg) string {
	u := t.Under()
	for u.Kind == vh.KPtr {
		u = u.Elem.Under()
	}
	switch u.Kind {
	case vh.KStruct:
		return "skipped:struct"
	case vh.KMap:
		if opt == "proto" {
			return "skipped:proto-map"
		}
		return "skipped:map"
	case vh.KSlice:
		if vh.IsProtoSlice(u, opt, cfg) {
			return "skipped:proto-slice"
		}
		if vh.RefWireType(u, opt, cfg) == vh.WTSlice {
			return "skipped:counted-slice"
		}
		return "skipped:packed-slice"
	case vh.KFloat32:
		return "skipped:fixed32"
	case vh.KFloat64, vh.KNullFloat:
		return "skipped:fixed64"
	case vh.KString, vh.KBytes, vh.KTime, vh.KNullString, vh.KNullTime:
		return "skipped:length"
	}
	return "skipped:varint"
}

var c03 = &vh.Prop[c03Case]{
	ID: "C03", Name: "schema-evolution",
	Gen: func(t *rapid.T) c03Case {
		cfg := vh.AllCfgs[rapid.IntRange(0, 3).Draw(t, "cfg")]
		var c c03Case
		c.Cfg = cfg
		e := &evolver{t: t, cfg: cfg}
		if rapid.IntRange(0, 9).Draw(t, "catalogpair") == 0 {
			pr := c03CatalogPairs[rapid.IntRange(0, len(c03CatalogPairs)-1).Draw(t, "pair")]
			c.S, c.S2 = vh.NamedT(pr.s), vh.NamedT(pr.s2)
		} else {
			prof := acceptedProfile(cfg)
			prof.TopStruct = true
			prof.MaxFields = 8
			c.S = vh.GenType(t, prof)
			c.S2 = e.evolveStruct(c.S, 0)
		}
		c.V = vh.GenVal(t, c.S, vh.VProfile{Cfg: cfg})
		c.Prior = e.priorFor(c.S, c.S2)
		return c
	},
	Run: func(c c03Case, x *vh.Ctx) *vh.Failure {
		x.Label("cfg:" + c.Cfg.String())
		p := vh.NewPlenc(c.Cfg)
		data, err := vh.MarshalVal(p, c.S, c.V)
		if err != nil {
			return vh.Fail("C03/marshal-error", "%v", err)
		}
		target := vh.ToReflect(c.S2, c.Prior)
		if err := vh.UnmarshalInto(p, target, data); err != nil {
			return vh.Fail("C03/decode-error", "decoding S data % x into S': %v", data, err)
		}
		got := vh.FromReflect(c.S2, target)
		want := vh.MergeX(c.S, c.S2, c.Prior, c.V, c.Cfg)
		if d := vh.DiffLoose(c.S2, got, want); d != "" {
			return vh.Fail("C03/mismatch", "S' after decoding S data differs from projection at %s\nbytes % x", d, data)
		}
		// non-trivial: a removed field that was non-zero, followed (in S's declaration
		// order = encoding order) by a surviving field that is non-zero
		su, du := c.S.Under(), c.S2.Under()
		dst := usedIndexes(du)
		seenRemoved := false
		for i, f := range su.Fields {
			idx, opt, ok := f.Enc()
			if !ok || vh.RefOmit(f.Type, c.V.L[i]) {
				continue
			}
			if !dst[idx] {
				seenRemoved = true
				x.Label(wireTypeLabel(f.Type, opt, c.Cfg))
			} else if seenRemoved {
				x.NonTrivial()
			}
		}
		x.LabelIf(c.S.Kind == vh.KNamed, "catalog-pair")
		return nil
	},
}

func init() { registrars = append(registrars, c03.Register) }

func TestC03(t *testing.T) { c03.Check(t, vh.N(20000, 30000)) }
