package props

import (
	"bytes"
	"testing"

	"pgregory.net/rapid"

	"verifharness/vh"
)

// C12: proto-compatible mode emits standard protobuf; default mode reads the
// repeated form; each switch changes only its own encoding.

type c12Case struct {
	T    *vh.TSpec `json:"type"`
	Vals []vh.Val  `json:"vals"`
}

var bothOn = vh.Cfg{ProtoArrays: true, ProtoTime: true}

func c12Profile() vh.Profile {
	return vh.Profile{Cfg: bothOn, Named: true, Maps: true, Opts: true, JSONTags: false, Skipped: true, TopStruct: true,
		ProtoMaps: true, NoIndexZero: true, NoRecursive: false}
}

// affectedBy reports whether a field's encoding can depend on the arrays / time switch.
func affectedBy(t *vh.TSpec, opt string) (arrays, time bool) {
	t.Walk(func(x *vh.TSpec) {
		if x.Kind == vh.KTime {
			time = true
		}
		if x.Kind == vh.KSlice && vh.RefWireType(x.Elem, "", vh.Cfg{}) == vh.WTLength {
			arrays = true
		}
	})
	return
}

var namedWithUntaggedMaps = map[string]bool{"Mid": true, "MapRec": true, "MidV2": true}

var c12 = &vh.Prop[c12Case]{
	ID: "C12", Name: "proto-compatible",
	Gen: func(t *rapid.T) c12Case {
		var ts *vh.TSpec
		for {
			ts = vh.GenType(t, c12Profile())
			// catalog types with plain (non-proto) map fields are outside the standard-protobuf domain
			if !ts.Has(func(x *vh.TSpec) bool { return x.Kind == vh.KNamed && namedWithUntaggedMaps[x.Name] }) {
				break
			}
		}
		n := rapid.IntRange(1, 2).Draw(t, "nvals")
		vals := make([]vh.Val, n)
		for i := range vals {
			vals[i] = vh.GenVal(t, ts, vh.VProfile{Cfg: bothOn, NoNilElems: true})
		}
		return c12Case{T: ts, Vals: vals}
	},
	Run: func(c c12Case, x *vh.Ctx) *vh.Failure {
		vh.RequireOracle()
		for _, l := range vh.ShapeLabels(c.T) {
			x.Label(l)
		}
		schema, err := vh.ProtoSchema(c.T, bothOn)
		if err != nil {
			return vh.Fail("harness/c12-schema", "generator produced a type outside the protobuf domain: %v", err)
		}
		u := c.T.Under()
		for vi, v := range c.Vals {
			enc := map[vh.Cfg][]byte{}
			for _, cfg := range vh.AllCfgs {
				p := vh.NewPlenc(cfg)
				data, err := vh.MarshalVal(p, c.T, v)
				if err != nil {
					return vh.Fail("C12/marshal-error", "cfg %s: %v", cfg, err)
				}
				enc[cfg] = data
				// (b) round trip in every mode
				got, err := vh.UnmarshalFresh(p, c.T, data)
				if err != nil {
					return vh.Fail("C12/unmarshal-error", "cfg %s: % x: %v", cfg, data, err)
				}
				if d := vh.Diff(c.T, got, vh.Normalise(c.T, v, cfg)); d != "" {
					return vh.Fail("C12/roundtrip-mismatch", "cfg %s value %d: differs at %s (bytes % x)", cfg, vi, d, data)
				}
				// (d) equals the reference encoding for that configuration
				ref := vh.RefEncode(c.T, v, cfg)
				cg, err1 := vh.Canon(c.T, data, cfg, nil)
				cr, err2 := vh.Canon(c.T, ref, cfg, nil)
				if err1 != nil || err2 != nil || !bytes.Equal(cg, cr) {
					return vh.Fail("C12/encoding-differs", "cfg %s value %d: Marshal % x\nreference % x (%v %v)", cfg, vi, data, ref, err1, err2)
				}
			}
			// (a) both switches on: standard protobuf per an independent reader
			var ps vh.ProtoStats
			if err := vh.ProtoRead(schema, enc[bothOn], &ps); err != nil {
				return vh.Fail("C12/not-standard-protobuf", "value %d: % x is not well-formed protobuf for the type: %v", vi, enc[bothOn], err)
			}
			// (c) a default-mode instance reads the repeated form (arrays on, time off)
			arraysOnly := vh.Cfg{ProtoArrays: true}
			got, err := vh.UnmarshalFresh(vh.NewPlenc(vh.Cfg{}), c.T, enc[arraysOnly])
			if err != nil {
				return vh.Fail("C12/default-cannot-read-repeated", "value %d: default instance on repeated-form bytes % x: %v", vi, enc[arraysOnly], err)
			}
			if d := vh.Diff(c.T, got, vh.Normalise(c.T, v, arraysOnly)); d != "" {
				return vh.Fail("C12/default-reads-repeated-differently", "value %d: differs at %s (bytes % x)", vi, d, enc[arraysOnly])
			}
			// (d) locality: a field that contains no time is byte-identical with the time switch
			// flipped; one that contains no slice of length-delimited elements is identical with
			// the arrays switch flipped
			if !hasMultiEntryMap(c.T, v) {
				spans := map[vh.Cfg]map[int][]byte{}
				for _, cfg := range vh.AllCfgs {
					s, err := vh.TopLevelSpans(c.T, enc[cfg], cfg)
					if err != nil {
						return vh.Fail("C12/output-not-walkable", "cfg %s: %v", cfg, err)
					}
					spans[cfg] = s
				}
				for _, f := range u.Fields {
					idx, opt, ok := f.Enc()
					if !ok {
						continue
					}
					arr, tm := affectedBy(f.Type, opt)
					for _, cfg := range vh.AllCfgs {
						if !tm {
							o := cfg
							o.ProtoTime = !o.ProtoTime
							if !bytes.Equal(spans[cfg][idx], spans[o][idx]) {
								return vh.Fail("C12/switch-not-local", "field %s (no time inside) changes with ProtoCompatibleTime: % x vs % x", f.Name, spans[cfg][idx], spans[o][idx])
							}
						}
						if !arr {
							o := cfg
							o.ProtoArrays = !o.ProtoArrays
							if !bytes.Equal(spans[cfg][idx], spans[o][idx]) {
								return vh.Fail("C12/switch-not-local", "field %s (no slice of length-delimited elements inside) changes with ProtoCompatibleArrays: % x vs % x", f.Name, spans[cfg][idx], spans[o][idx])
							}
						}
					}
				}
			}
			if ps.Repeated > 0 || ps.Timestamps > 0 {
				x.NonTrivial()
			}
			x.LabelIf(ps.Repeated > 0, "has-repeated")
			x.LabelIf(ps.Timestamps > 0, "has-timestamp")
			x.LabelIf(ps.Packed > 0, "has-packed")
		}
		return nil
	},
}

func init() { registrars = append(registrars, c12.Register) }

func TestC12(t *testing.T) { c12.Check(t, vh.N(10000, 40000)) }
