//go:build verif

package props

import (
	"encoding/hex"
	"encoding/json"
	"fmt"
	"os"
	"reflect"
	"runtime"
	"strconv"
	"strings"
	"sync"
	"testing"

	"github.com/philpearl/plenc"
	"github.com/philpearl/plenc/plenccodec"
	"pgregory.net/rapid"

	"verifharness/vh"
)

// C07: safe for concurrent use, including concurrent first use of a type.
// (1) owned schedules over the yield hooks; (2) free-running under -race.

type c07Op struct {
	Kind string    `json:"kind"` // marshal | unmarshal | codec
	T    *vh.TSpec `json:"type"`
	V    vh.Val    `json:"v"`
}

type c07Case struct {
	Cfg     vh.Cfg  `json:"cfg"`
	Family  string  `json:"family"`
	Ops     []c07Op `json:"ops"`
	Choices []int   `json:"choices"`
}

func internFamilyType() *vh.TSpec {
	key := vh.StructOf(vh.F("A", 1, vh.T(vh.KInt)), vh.F("B", 2, vh.T(vh.KString)))
	return vh.StructOf(vh.FOpt("S", 1, "intern", vh.T(vh.KString)), vh.F("M", 2, vh.MapOf(key, vh.T(vh.KString))),
		vh.FOpt("N", 3, "intern", vh.T(vh.KNullString)), vh.F("L", 4, vh.SliceOf(vh.StructOf(vh.FOpt("I", 1, "intern", vh.T(vh.KString))))))
}

// c07Families: sets of related types whose codecs are built through each other.
func c07Families() map[string][]*vh.TSpec {
	n := vh.NamedT
	return map[string][]*vh.TSpec{
		"self-via-slice":   {n("Tree"), vh.SliceOf(n("Tree")), vh.PtrOf(n("Tree")), n("PairLeafTree")},
		"self-via-ptr":     {n("List"), vh.PtrOf(n("List")), vh.SliceOf(n("List"))},
		"mutual":           {n("MutA"), n("MutB"), vh.SliceOf(n("MutA")), vh.PtrOf(n("MutB")), vh.MapOf(vh.T(vh.KString), n("MutA"))},
		"three-cycle":      {n("Cyc1"), n("Cyc2"), n("Cyc3"), vh.SliceOf(n("Cyc3")), vh.PtrOf(n("Cyc2"))},
		"via-map-value":    {n("MapRec"), vh.MapOf(vh.T(vh.KString), n("MapRec")), vh.SliceOf(n("MapRec"))},
		"via-ptr-slice":    {n("PtrSliceRec"), vh.SliceOf(vh.PtrOf(n("PtrSliceRec")))},
		"deep-nesting":     {n("Mid"), n("Leaf"), vh.SliceOf(n("Leaf")), vh.PtrOf(n("Mid")), vh.MapOf(vh.T(vh.KInt), n("Mid"))},
		"tagged-recursion": {n("TreeP"), vh.SliceOf(n("TreeP")), vh.PtrOf(n("TreeP")), n("TagMutA"), n("TagMutB"), vh.StructOf(vh.FOpt("K", 1, "proto", vh.SliceOf(n("TreeP"))), vh.F("Z", 2, vh.T(vh.KInt)))},
		"intern-and-pool":  {internFamilyType(), vh.SliceOf(internFamilyType()), vh.PtrOf(internFamilyType())},
	}
}

var c07FamilyNames = []string{"tagged-recursion", "self-via-slice", "self-via-ptr", "mutual", "three-cycle", "via-map-value", "via-ptr-slice", "deep-nesting", "intern-and-pool"}

func genC07Ops(t *rapid.T, fam []*vh.TSpec, cfg vh.Cfg, n int) []c07Op {
	ops := make([]c07Op, n)
	for i := range ops {
		ts := fam[rapid.IntRange(0, len(fam)-1).Draw(t, "optype")]
		kind := []string{"marshal", "unmarshal", "codec", "marshal", "unmarshal", "corrupt-then-unmarshal"}[rapid.IntRange(0, 5).Draw(t, "opkind")]
		v := vh.GenVal(t, ts, vh.VProfile{Cfg: cfg, Small: true, Depth: 2})
		ops[i] = c07Op{Kind: kind, T: ts, V: v}
	}
	return ops
}

// runOp executes one operation and renders its result canonically.
func runOp(p *plenc.Plenc, op c07Op, cfg vh.Cfg) (out string, panicked string) {
	f := vh.Guard("C07", func() *vh.Failure {
		switch op.Kind {
		case "codec":
			c, err := p.CodecForType(op.T.Build())
			if err != nil || c == nil {
				out = "codec-error"
			} else {
				out = "codec-ok wt=" + fmt.Sprint(c.WireType())
			}
		case "marshal":
			data, err := vh.MarshalVal(p, op.T, op.V)
			if err != nil {
				out = "marshal-error"
				return nil
			}
			// up to map order
			if cn, err := vh.Canon(op.T, data, cfg, nil); err == nil {
				data = cn
			} else {
				out = "unwalkable " + hex.EncodeToString(data)
				return nil
			}
			out = hex.EncodeToString(data)
		case "corrupt-then-unmarshal":
			// a failed decode first (its outcome is not examined), then the real one
			data := vh.RefEncode(op.T, op.V, cfg)
			if len(data) > 2 {
				bt := op.T.Build()
				lim := len(data)
				if lim > 28 {
					lim = 28
				}
				for cut := 1; cut < lim; cut++ {
					scratch := reflect.New(bt)
					_ = p.Unmarshal(data[:cut:cut], scratch.Interface())
				}
				scratch := reflect.New(bt)
				_ = p.Unmarshal(append(append([]byte{}, data[:len(data)/2]...), 0xff, 0xff, 0xff, 0xff, 0x0f), scratch.Interface())
				// damaged in place: complete frames whose contents are corrupt fail deeper down
				for pos := 0; pos < lim; pos++ {
					for _, nb := range []byte{data[pos] ^ 0x55, data[pos] + 3} {
						bad := append([]byte{}, data...)
						bad[pos] = nb
						scratch := reflect.New(bt)
						_ = p.Unmarshal(bad, scratch.Interface())
					}
				}
			}
			got, err := vh.UnmarshalFresh(p, op.T, data)
			if err != nil {
				out = "unmarshal-error"
				return nil
			}
			b, _ := json.Marshal(got)
			out = string(b)
		case "unmarshal":
			data := vh.RefEncode(op.T, op.V, cfg)
			got, err := vh.UnmarshalFresh(p, op.T, data)
			if err != nil {
				out = "unmarshal-error"
				return nil
			}
			b, _ := json.Marshal(got)
			out = string(b)
		}
		return nil
	})
	if f != nil {
		return "", f.Class + ": " + f.Msg
	}
	return out, ""
}

func c07Run(c c07Case, x *vh.Ctx) *vh.Failure {
	x.Label("family:" + c.Family)
	x.Label(fmt.Sprintf("goroutines:%d", len(c.Ops)))
	topStructOnly := c.Cfg.ProtoArrays
	for _, op := range c.Ops {
		if topStructOnly && op.T.Under().Kind != vh.KStruct && op.Kind != "codec" {
			return nil // repeated form has no top-level framing; the generator avoids it
		}
	}
	// sequential reference: each op alone on its own fresh instance
	want := make([]string, len(c.Ops))
	for i, op := range c.Ops {
		o, pn := runOp(vh.NewPlenc(c.Cfg), op, c.Cfg)
		if pn != "" {
			return vh.Fail("C07/sequential-panic", "op %d panics even when run alone: %s", i, pn)
		}
		want[i] = o
	}
	// concurrent: all ops on ONE fresh instance (every run is a first use), owned schedule
	shared := vh.NewPlenc(c.Cfg)
	got := make([]string, len(c.Ops))
	panics := make([]string, len(c.Ops))
	workers := make([]func(), len(c.Ops))
	for i := range c.Ops {
		i := i
		workers[i] = func() { got[i], panics[i] = runOp(shared, c.Ops[i], c.Cfg) }
	}
	s := &vh.Sched{}
	plenccodec.SetVerifYield(s.Yield)
	err := s.Run(workers, c.Choices)
	plenccodec.SetVerifYield(nil)
	if err != nil {
		return vh.Fail("C07/deadlock", "%v\ntrace %v", err, s.Trace)
	}
	for i := range c.Ops {
		if panics[i] != "" {
			return vh.Fail("C07/concurrent-panic", "op %d (%s %s) panicked under the schedule (%d preemptions at %v): %s\ntrace %v", i, c.Ops[i].Kind, c.Ops[i].T, s.Preempt, s.PreemptPoints, panics[i], s.Trace)
		}
		if got[i] != want[i] {
			return vh.Fail("C07/concurrent-result-differs", "op %d (%s %s): concurrent result %.300s\nalone %.300s\n%d preemptions at %v\ntrace %v", i, c.Ops[i].Kind, c.Ops[i].T, got[i], want[i], s.Preempt, s.PreemptPoints, s.Trace)
		}
	}
	// afterwards the shared instance still behaves (no broken codec left in the registry)
	for i, op := range c.Ops {
		o, pn := runOp(shared, op, c.Cfg)
		if pn != "" || o != want[i] {
			return vh.Fail("C07/instance-broken-afterwards", "op %d (%s %s) on the shared instance after the concurrent phase: %.300s %s\nalone %.300s", i, op.Kind, op.T, o, pn, want[i])
		}
	}
	c07Last.preempt, c07Last.points, c07Last.trace = s.Preempt, len(s.Trace), strings.Join(s.Trace, ",")
	building := false
	for _, pt := range s.PreemptPoints {
		if pt == "map-key-read" || pt == "struct-field" || pt == "struct-start" || pt == "struct-before-index" || pt == "struct-before-publish" || pt == "before-store" || pt == "registry-miss" {
			building = true
		}
		x.Label("preempt-at:" + pt)
	}
	x.Label(fmt.Sprintf("preemptions:%d", min(s.Preempt, 5)))
	if s.Preempt > 0 && building {
		x.NonTrivial()
	}
	return nil
}

// c07Last describes the most recent scheduled run (properties run sequentially).
var c07Last struct {
	preempt, points int
	trace           string
}

var c07 = &vh.Prop[c07Case]{
	ID: "C07", Name: "owned-schedule",
	Gen: func(t *rapid.T) c07Case {
		cfg := vh.AllCfgs[rapid.IntRange(0, 3).Draw(t, "cfg")]
		if rapid.IntRange(0, 2).Draw(t, "defaultcfg") != 0 {
			cfg = vh.Cfg{}
		}
		name := c07FamilyNames[rapid.IntRange(0, len(c07FamilyNames)-1).Draw(t, "family")]
		fam := c07Families()[name]
		n := rapid.IntRange(2, 4).Draw(t, "goroutines")
		ops := genC07Ops(t, fam, cfg, n)
		if cfg.ProtoArrays {
			for i := range ops {
				if ops[i].T.Under().Kind != vh.KStruct {
					ops[i].Kind = "codec"
				}
			}
		}
		// sparse preemptions: mostly "continue"
		nch := rapid.IntRange(0, 60).Draw(t, "nchoices")
		ch := make([]int, nch)
		for i := range ch {
			if rapid.IntRange(0, 4).Draw(t, "pre") == 0 {
				ch[i] = rapid.IntRange(1, 3).Draw(t, "to")
			}
		}
		return c07Case{Cfg: cfg, Family: name, Ops: ops, Choices: ch}
	},
	Run: c07Run,
	Key: func(c c07Case) []byte {
		b, _ := json.Marshal(c)
		return b
	},
}

func TestC07Schedules(t *testing.T) { c07.Check(t, vh.N(4000, 20000)) }

// TestC07Enumerate: for two goroutines, every schedule with at most two
// preemptions (thorough; quick: at most one), over fixed op pairs per family.
func TestC07Enumerate(t *testing.T) {
	st := vh.NewStats("C07", "enumerated-schedules")
	shard, _ := strconv.Atoi(os.Getenv("VERIF_SHARD"))
	shards, _ := strconv.Atoi(os.Getenv("VERIF_SHARDS"))
	if shards <= 0 {
		shards = 1
	}
	maxPre := 1
	if vh.Thorough() {
		maxPre = 2
	}
	var total, nontrivial int64
	fams := c07Families()
	pairIdx := 0
	for _, name := range c07FamilyNames {
		fam := fams[name]
		// fixed values: a small non-trivial value per type, drawn with a fixed rapid seed per family
		for a := 0; a < len(fam) && a < 3; a++ {
			for b := 0; b < len(fam) && b < 3; b++ {
				for ki, kinds := range [][2]string{{"marshal", "unmarshal"}, {"codec", "marshal"}, {"unmarshal", "unmarshal"}, {"corrupt-then-unmarshal", "corrupt-then-unmarshal"}} {
					if ki == 3 && !vh.Thorough() {
						continue
					}
					pairIdx++
					if pairIdx%shards != shard {
						continue
					}
					ops := []c07Op{{Kind: kinds[0], T: fam[a], V: c07FixedVal(fam[a])}, {Kind: kinds[1], T: fam[b], V: c07FixedVal(fam[b])}}
					// first find how many scheduling points a run has (no preemption)
					probe := c07Case{Family: name, Ops: ops}
					if f := c07.Try(probe); f != nil {
						t.Fatalf("C07/enumerated %s", f.Error())
					}
					npts := c07Last.points + 2
					if npts > 90 {
						npts = 90
					}
					run := func(ch []int) {
						c := c07Case{Family: name, Ops: ops, Choices: ch}
						if f := c07.Try(c); f != nil {
							t.Fatalf("C07/enumerated %s", f.Error())
						}
						total++
						// distinct = a different interleaving actually happened (by trace)
						st.Record([]byte(name+"|"+kinds[0]+kinds[1]+"|"+c07Last.trace), c07Last.preempt > 0, []string{"family:" + name}, func() any {
							return map[string]any{"family": name, "ops": []string{kinds[0] + " " + fam[a].String(), kinds[1] + " " + fam[b].String()}, "choices": ch}
						})
					}
					for i := 0; i < npts; i++ {
						ch := make([]int, i+1)
						ch[i] = 1
						run(ch)
						if maxPre >= 2 {
							for j := i + 1; j < npts; j += 1 {
								ch2 := make([]int, j+1)
								ch2[i], ch2[j] = 1, 1
								run(ch2)
							}
						}
					}
				}
			}
		}
	}
	_ = nontrivial
	st.AddSample(map[string]any{"schedules": fmt.Sprintf("two goroutines, preemption at every (pair of) scheduling point(s) of the run (at most 90), <=%d preemptions", maxPre)})
	st.SetExhaustive(fmt.Sprintf("two-goroutine-schedules-shard-%d", shard), map[string]any{"exhaustive": true, "max_preemptions": maxPre, "scheduling_points": "all of each run, at most 90", "runs": total})
}

// c07FixedVal builds a deterministic, non-trivial value of the type.
func c07FixedVal(ts *vh.TSpec) vh.Val {
	var build func(t *vh.TSpec, depth int) vh.Val
	build = func(t *vh.TSpec, depth int) vh.Val {
		u := t.Under()
		switch u.Kind {
		case vh.KBool:
			return vh.Val{B: true}
		case vh.KFloat32:
			return vh.Val{F: 0x3fc00000}
		case vh.KFloat64:
			return vh.Val{F: 0x3ff8000000000000}
		case vh.KString:
			return vh.Val{S: []byte("s" + fmt.Sprint(depth))}
		case vh.KBytes:
			return vh.Val{S: []byte{1, 2}}
		case vh.KTime:
			return vh.Val{T: &vh.TimeVal{Sec: 1700000000 + int64(depth)}}
		case vh.KNullString:
			return vh.Val{P: &vh.Val{S: []byte("n")}}
		case vh.KPtr:
			if depth <= 0 {
				return vh.Val{Nil: true}
			}
			p := build(u.Elem, depth-1)
			return vh.Val{P: &p}
		case vh.KSlice:
			if depth <= 0 {
				return vh.Val{Nil: true}
			}
			return vh.Val{L: []vh.Val{build(u.Elem, depth-1), build(u.Elem, depth-1)}}
		case vh.KMap:
			if depth <= 0 {
				return vh.Val{Nil: true}
			}
			return vh.Val{M: []vh.KV{{K: build(u.Key, depth-1), V: build(u.Elem, depth-1)}}}
		case vh.KStruct:
			l := make([]vh.Val, len(u.Fields))
			for i, f := range u.Fields {
				l[i] = build(f.Type, depth-1)
			}
			return vh.Val{L: l}
		}
		if u.Kind.IsSignedInt() {
			return vh.Val{I: int64(depth) + 3}
		}
		if u.Kind.IsUnsignedInt() {
			return vh.Val{U: uint64(depth) + 3}
		}
		return vh.ZeroVal(t)
	}
	return build(ts, 3)
}

// TestC07Race: free-running goroutines on fresh instances (run with -race).
func TestC07Race(t *testing.T) {
	st := vh.NewStats("C07", "free-running-race")
	runtime.GOMAXPROCS(16)
	rounds := vh.N(1500, 30000)
	fams := c07Families()
	var total int64
	seed, _ := strconv.Atoi(os.Getenv("VERIF_SEED"))
	for r := 0; r < rounds; r++ {
		name := c07FamilyNames[(r+seed)%len(c07FamilyNames)]
		fam := fams[name]
		n := 2 + (r/len(c07FamilyNames))%5
		ops := make([]c07Op, n)
		for i := range ops {
			ts := fam[(r/7+i*3+seed)%len(fam)]
			ops[i] = c07Op{Kind: []string{"marshal", "unmarshal", "codec", "corrupt-then-unmarshal"}[(r+i)%4], T: ts, V: c07FixedVal(ts)}
		}
		want := make([]string, n)
		for i, op := range ops {
			want[i], _ = runOp(vh.NewPlenc(vh.Cfg{}), op, vh.Cfg{})
		}
		shared := vh.NewPlenc(vh.Cfg{})
		got := make([]string, n)
		pans := make([]string, n)
		var wg sync.WaitGroup
		start := make(chan struct{})
		for i := range ops {
			wg.Add(1)
			go func(i int) {
				defer wg.Done()
				<-start
				for rep := 0; rep < 3; rep++ {
					got[i], pans[i] = runOp(shared, ops[i], vh.Cfg{})
					if pans[i] != "" {
						return
					}
				}
			}(i)
		}
		close(start)
		wg.Wait()
		for i := range ops {
			if pans[i] != "" || got[i] != want[i] {
				c := c07Case{Family: name, Ops: ops}
				f := vh.Fail("C07/free-running-result-differs", "round %d op %d (%s %s): %.300s %s\nalone %.300s", r, i, ops[i].Kind, ops[i].T, got[i], pans[i], want[i])
				vh.WriteFailure("C07", "owned-schedule", c, f)
				t.Fatalf("%s", f.Error())
			}
		}
		total++
		st.Record([]byte(fmt.Sprintf("%s|%d|%d", name, n, r%64)), true, []string{"family:" + name}, func() any {
			return map[string]any{"family": name, "goroutines": n, "ops": fmt.Sprint(ops[0].Kind, " ", ops[0].T, " ...")}
		})
	}
	_ = reflect.TypeOf
	c07Steady(t, st, rounds/50, 150)

	// The package-level default instance: every round uses struct types that did not
	// exist before (unique field names), so each round is a concurrent FIRST use on the
	// shared default registry; results are compared with a private fresh instance.
	for r := 0; r < rounds/3; r++ {
		inner := vh.StructOf(vh.F(fmt.Sprintf("I%d", r), 1, vh.T(vh.KInt)), vh.FOpt(fmt.Sprintf("S%d", r), 2, "intern", vh.T(vh.KString)))
		outer := vh.StructOf(vh.F(fmt.Sprintf("A%d", r), 1, vh.SliceOf(inner)), vh.F(fmt.Sprintf("M%d", r), 2, vh.MapOf(vh.T(vh.KString), vh.PtrOf(inner))), vh.F("Z", 3, vh.T(vh.KInt)))
		types := []*vh.TSpec{outer, vh.SliceOf(outer), inner}
		n := 2 + r%4
		want := make([]string, n)
		got := make([]string, n)
		ops := make([]c07Op, n)
		for i := range ops {
			ts := types[(r+i)%len(types)]
			ops[i] = c07Op{Kind: []string{"marshal", "unmarshal", "codec"}[(r+i)%3], T: ts, V: c07FixedVal(ts)}
			want[i], _ = runOp(vh.NewPlenc(vh.Cfg{}), ops[i], vh.Cfg{})
		}
		var wg sync.WaitGroup
		start := make(chan struct{})
		for i := range ops {
			wg.Add(1)
			go func(i int) {
				defer wg.Done()
				<-start
				got[i] = runOpDefault(ops[i])
			}(i)
		}
		close(start)
		wg.Wait()
		for i := range ops {
			if got[i] != want[i] {
				f := vh.Fail("C07/default-instance-result-differs", "round %d op %d (%s %s) through the package-level functions: %.300s\non a private instance: %.300s", r, i, ops[i].Kind, ops[i].T, got[i], want[i])
				vh.WriteFailure("C07", "owned-schedule", c07Case{Family: "default-instance", Ops: ops}, f)
				t.Fatalf("%s", f.Error())
			}
		}
		st.Record([]byte(fmt.Sprintf("default|%d|%d", n, r%64)), true, []string{"family:default-instance"}, func() any {
			return map[string]any{"family": "package-level default instance, fresh types", "goroutines": n}
		})
	}
}

// c07Steady: free-running goroutines on one instance whose codecs all exist already, each
// repeating its own operation on its own type many times and checking every single result
// against what the operation returns alone. (First use is what the schedule-owning checks are
// about; this is the steady state, where only lookups and shared scratch state are left.)
func c07Steady(t *testing.T, st *vh.Stats, rounds, reps int) {
	fams := c07Families()
	seed, _ := strconv.Atoi(os.Getenv("VERIF_SEED"))
	for r := 0; r < rounds; r++ {
		name := c07FamilyNames[(r+seed)%len(c07FamilyNames)]
		fam := fams[name]
		n := 2 + r%4
		ops := make([]c07Op, n)
		for i := range ops {
			ts := fam[(r/5+i+seed)%len(fam)] // neighbours use different types
			ops[i] = c07Op{Kind: []string{"marshal", "unmarshal", "codec", "unmarshal"}[(r+i)%4], T: ts, V: c07FixedVal(ts)}
		}
		shared := vh.NewPlenc(vh.Cfg{})
		want := make([]string, n)
		for i, op := range ops {
			want[i], _ = runOp(shared, op, vh.Cfg{}) // warms every codec
		}
		bad := make([]string, n)
		var wg sync.WaitGroup
		start := make(chan struct{})
		for i := range ops {
			wg.Add(1)
			go func(i int) {
				defer wg.Done()
				<-start
				for rep := 0; rep < reps; rep++ {
					got, pan := runOp(shared, ops[i], vh.Cfg{})
					if pan != "" || got != want[i] {
						bad[i] = fmt.Sprintf("repetition %d: %.300s %s", rep, got, pan)
						return
					}
				}
			}(i)
		}
		close(start)
		wg.Wait()
		for i := range ops {
			if bad[i] != "" {
				f := vh.Fail("C07/steady-state-result-differs", "round %d, %d goroutines, op %d (%s %s) on a warmed-up shared instance: %s\nalone: %.300s", r, n, i, ops[i].Kind, ops[i].T, bad[i], want[i])
				vh.WriteFailure("C07", "owned-schedule", c07Case{Family: name, Ops: ops}, f)
				t.Fatalf("%s", f.Error())
			}
		}
		st.Record([]byte(fmt.Sprintf("steady|%s|%d|%d", name, n, r%64)), true, []string{"family:" + name, "steady-state"}, func() any {
			return map[string]any{"family": name, "goroutines": n, "repetitions": reps, "ops": fmt.Sprint(ops[0].Kind, " ", ops[0].T, " ...")}
		})
	}
}

// TestC07Steady runs the steady-state part without the race detector (many more repetitions).
func TestC07Steady(t *testing.T) {
	runtime.GOMAXPROCS(16)
	c07Steady(t, vh.NewStats("C07", "free-running-steady-state"), vh.N(60, 600), 1500)
}

// runOpDefault is runOp through the package-level functions (the default instance).
func runOpDefault(op c07Op) (out string) {
	defer func() {
		if r := recover(); r != nil {
			out = fmt.Sprintf("panic: %v", r)
		}
	}()
	switch op.Kind {
	case "codec":
		c, err := plenc.CodecForType(op.T.Build())
		if err != nil || c == nil {
			return "codec-error"
		}
		return "codec-ok wt=" + fmt.Sprint(c.WireType())
	case "marshal":
		rv := vh.ToReflect(op.T, op.V)
		data, err := plenc.Marshal(nil, rv.Addr().Interface())
		if err != nil {
			return "marshal-error"
		}
		cn, err := vh.Canon(op.T, data, vh.Cfg{}, nil)
		if err != nil {
			return "unwalkable " + hex.EncodeToString(data)
		}
		return hex.EncodeToString(cn)
	default:
		data := vh.RefEncode(op.T, op.V, vh.Cfg{})
		target := reflect.New(op.T.Build())
		if err := plenc.Unmarshal(data, target.Interface()); err != nil {
			return "unmarshal-error"
		}
		b, _ := json.Marshal(vh.FromReflect(op.T, target.Elem()))
		return string(b)
	}
}

func init() { registrars = append(registrars, c07.Register) }
