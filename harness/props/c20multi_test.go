package props

import (
	"fmt"
	"os"
	"path/filepath"
	"strings"
	"testing"

	"pgregory.net/rapid"

	"verifharness/vh"
)

// C20, several files in one run: `plenctag a.go b.go c.go` must do to each
// file exactly what a run on that file alone does (which the single-file check
// decides), up to and including the first file it reports an error for.

type c20mCase struct {
	Files []c20Case `json:"files"` // Args of Files[0] are used for the run
}

// retag copies a struct list and draws every tag afresh: same layout (so the
// fields sit at the same positions in the source), different tags.
func retag(g *c20gen, in []c20Struct) []c20Struct {
	var walk func(fs []c20Field) []c20Field
	walk = func(fs []c20Field) []c20Field {
		out := make([]c20Field, len(fs))
		var used []int
		for i, f := range fs {
			out[i] = f
			if f.Sub != nil {
				sub := *f.Sub
				sub.Fields = walk(f.Sub.Fields)
				out[i].Sub = &sub
			}
			out[i].Tag = g.tag(&used, f.Type)
		}
		return out
	}
	out := make([]c20Struct, len(in))
	for i, s := range in {
		out[i] = s
		out[i].Fields = walk(s.Fields)
	}
	return out
}

var c20Multi = &vh.Prop[c20mCase]{
	ID: "C20", Name: "plenctag-several-files",
	Gen: func(t *rapid.T) c20mCase {
		first := genC20(t)
		c := c20mCase{Files: []c20Case{first}}
		n := rapid.IntRange(1, 2).Draw(t, "more")
		for i := 0; i < n; i++ {
			g := &c20gen{t: t}
			var next c20Case
			if rapid.IntRange(0, 2).Draw(t, "samelayout") != 0 {
				next = c20Case{Structs: retag(g, c.Files[rapid.IntRange(0, len(c.Files)-1).Draw(t, "of")].Structs)}
			} else {
				next = genC20(t)
			}
			next.Args = first.Args
			c.Files = append(c.Files, next)
		}
		return c
	},
	Run: func(c c20mCase, x *vh.Ctx) *vh.Failure {
		bin := os.Getenv("VERIF_PLENCTAG")
		if bin == "" {
			return vh.Fail("harness/no-plenctag", "VERIF_PLENCTAG not set")
		}
		dir, err := os.MkdirTemp("", "c20m-")
		if err != nil {
			return vh.Fail("harness/tempdir", "%v", err)
		}
		defer os.RemoveAll(dir)
		args := c.Files[0].Args
		type single struct {
			src, out, stdout string
			code             int
		}
		var singles []single
		var multiFiles []string
		for i, f := range c.Files {
			src := f.render()
			one := filepath.Join(dir, fmt.Sprintf("one%d.go", i))
			many := filepath.Join(dir, fmt.Sprintf("many%d.go", i))
			if os.WriteFile(one, []byte(src), 0o644) != nil || os.WriteFile(many, []byte(src), 0o644) != nil {
				return vh.Fail("harness/write", "cannot write inputs")
			}
			stdout, stderr, code := runTool(bin, args, one)
			if strings.Contains(stderr, "panic:") || code == 2 {
				return nil // a crash on a single file is the single-file check's business
			}
			out, _ := os.ReadFile(one)
			singles = append(singles, single{src, string(out), stdout, code})
			multiFiles = append(multiFiles, many)
		}
		stdout, stderr, code := runTool(bin, append(append([]string{}, args...), multiFiles[:len(multiFiles)-1]...), multiFiles[len(multiFiles)-1])
		if strings.Contains(stderr, "panic:") || strings.Contains(stderr, "goroutine ") || code == 2 {
			return vh.Fail("C20/tool-panics", "plenctag %v on %d files crashed (exit %d):\n%s", args, len(multiFiles), code, firstLines(stderr, 12))
		}
		wantStdout := ""
		failedAt := -1
		for i, s := range singles {
			got, _ := os.ReadFile(multiFiles[i])
			if string(got) != s.out {
				return vh.Fail("C20/several-files-differ-from-single-runs", "file %d of %d (args %v): one run over all files leaves it different from a run on it alone\n--- input\n%s\n--- alone\n%s\n--- in the joint run\n%s", i+1, len(singles), args, s.src, s.out, got)
			}
			wantStdout += s.stdout
			if s.code != 0 {
				failedAt = i
				break
			}
		}
		if failedAt < 0 && code != 0 {
			return vh.Fail("C20/several-files-differ-from-single-runs", "every file is accepted alone but the joint run exits %d: %s", code, firstLines(stderr, 4))
		}
		if failedAt >= 0 && code == 0 {
			return vh.Fail("C20/several-files-differ-from-single-runs", "file %d is refused alone but the joint run exits 0", failedAt+1)
		}
		if stdout != wantStdout {
			return vh.Fail("C20/several-files-differ-from-single-runs", "standard output of the joint run differs from the single runs' outputs in sequence (args %v)\n--- joint\n%s\n--- single runs\n%s", args, stdout, wantStdout)
		}
		x.Label(fmt.Sprintf("files:%d failedAt:%d", len(singles), failedAt))
		if failedAt != 0 {
			x.NonTrivial()
		}
		return nil
	},
}

func init() { registrars = append(registrars, c20Multi.Register) }

func TestC20SeveralFiles(t *testing.T) { c20Multi.Check(t, vh.N(500, 4000)) }
