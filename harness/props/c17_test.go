package props

import (
	"bytes"
	"encoding/binary"
	"fmt"
	"reflect"
	"sync"
	"testing"
	"time"
	"unsafe"

	"github.com/philpearl/plenc"
	"github.com/philpearl/plenc/plenccodec"
	"github.com/philpearl/plenc/plenccore"
	"pgregory.net/rapid"

	"verifharness/vh"
)

// C17: registrations and options are scoped to their Plenc instance and
// (type, tag) key; the package-level functions behave like a default instance.

// ---- marker codecs (harness-defined custom codecs)

type markStrCodec struct{ m byte }

func (c markStrCodec) Omit(ptr unsafe.Pointer) bool { return len(*(*vh.MStr)(ptr)) == 0 }
func (c markStrCodec) New() unsafe.Pointer          { return unsafe.Pointer(new(vh.MStr)) }
func (c markStrCodec) WireType() plenccore.WireType { return plenccore.WTLength }
func (c markStrCodec) Descriptor() plenccodec.Descriptor {
	return plenccodec.Descriptor{Type: plenccodec.FieldTypeString}
}
func (c markStrCodec) Size(ptr unsafe.Pointer, tag []byte) int {
	l := 1 + len(*(*vh.MStr)(ptr))
	if len(tag) != 0 {
		l += len(tag) + plenccore.SizeVarUint(uint64(l))
	}
	return l
}
func (c markStrCodec) Append(data []byte, ptr unsafe.Pointer, tag []byte) []byte {
	s := *(*vh.MStr)(ptr)
	if len(tag) != 0 {
		data = append(data, tag...)
		data = plenccore.AppendVarUint(data, uint64(1+len(s)))
	}
	data = append(data, c.m)
	return append(data, s...)
}
func (c markStrCodec) Read(data []byte, ptr unsafe.Pointer, wt plenccore.WireType) (int, error) {
	if len(data) == 0 {
		*(*vh.MStr)(ptr) = ""
		return 0, nil
	}
	if data[0] != c.m {
		return 0, fmt.Errorf("marker %#x, want %#x", data[0], c.m)
	}
	*(*vh.MStr)(ptr) = vh.MStr(data[1:])
	return len(data), nil
}

type offIntCodec struct{ k int64 }

func (c offIntCodec) Omit(ptr unsafe.Pointer) bool { return *(*vh.MInt)(ptr) == 0 }
func (c offIntCodec) New() unsafe.Pointer          { return unsafe.Pointer(new(vh.MInt)) }
func (c offIntCodec) WireType() plenccore.WireType { return plenccore.WTVarInt }
func (c offIntCodec) Descriptor() plenccodec.Descriptor {
	return plenccodec.Descriptor{Type: plenccodec.FieldTypeInt}
}
func (c offIntCodec) Size(ptr unsafe.Pointer, tag []byte) int {
	return len(tag) + plenccore.SizeVarInt(int64(*(*vh.MInt)(ptr))+c.k)
}
func (c offIntCodec) Append(data []byte, ptr unsafe.Pointer, tag []byte) []byte {
	data = append(data, tag...)
	return plenccore.AppendVarInt(data, int64(*(*vh.MInt)(ptr))+c.k)
}
func (c offIntCodec) Read(data []byte, ptr unsafe.Pointer, wt plenccore.WireType) (int, error) {
	v, n := plenccore.ReadVarInt(data)
	if n < 0 || (n == 0 && len(data) != 0) {
		return 0, fmt.Errorf("corrupt")
	}
	if n == 0 {
		*(*vh.MInt)(ptr) = 0
		return 0, nil
	}
	*(*vh.MInt)(ptr) = vh.MInt(v - c.k)
	return n, nil
}

// ---- case

type c17Reg struct {
	Str    bool  `json:"str,omitempty"` // markStrCodec registered for MStr (untagged)
	Marker byte  `json:"marker,omitempty"`
	Int    bool  `json:"int,omitempty"` // offIntCodec for MInt (untagged)
	Offset int64 `json:"offset,omitempty"`
	TagInt bool  `json:"tagint,omitempty"` // offIntCodec for (MInt, "off")
	TagOff int64 `json:"tagoff,omitempty"`
	BQ     bool  `json:"bq,omitempty"` // BQTimestampCodec for time.Time
}

type c17Inst struct {
	Cfg vh.Cfg `json:"cfg"`
	Reg c17Reg `json:"reg"`
}

type c17Case struct {
	Insts  []c17Inst `json:"instances"`
	UseTag bool      `json:"use_tag"` // the type has fields tagged "off" (then every instance registers it)
	T      *vh.TSpec `json:"type"`
	V      vh.Val    `json:"v"`
	Late   c17Reg    `json:"late"` // registered on a further instance after the others built their codecs
}

func (r c17Reg) apply(p *plenc.Plenc) {
	if r.Str {
		p.RegisterCodec(reflect.TypeOf(vh.MStr("")), markStrCodec{r.Marker})
	}
	if r.Int {
		p.RegisterCodec(reflect.TypeOf(vh.MInt(0)), offIntCodec{r.Offset})
	}
	if r.TagInt {
		p.RegisterCodecWithTag(reflect.TypeOf(vh.MInt(0)), "off", offIntCodec{r.TagOff})
	}
	if r.BQ {
		p.RegisterCodec(reflect.TypeOf(time.Time{}), plenccodec.BQTimestampCodec{})
	}
}

// custom is the reference-side view of a registration.
func (r c17Reg) custom(t *vh.TSpec, opt string) *vh.CustomLeaf {
	switch {
	case t.Kind == vh.KNamed && t.Name == "MStr" && r.Str && (opt == "" || opt == "intern"):
		return &vh.CustomLeaf{WT: vh.WTLength, Body: func(v vh.Val) []byte { return append([]byte{r.Marker}, v.S...) }}
	case t.Kind == vh.KNamed && t.Name == "MInt" && opt == "off" && r.TagInt:
		return &vh.CustomLeaf{WT: vh.WTVarInt, Body: func(v vh.Val) []byte {
			x := v.I + r.TagOff
			return binary.AppendUvarint(nil, uint64(x<<1)^uint64(x>>63))
		}}
	case t.Kind == vh.KNamed && t.Name == "MInt" && (opt == "" || opt == "intern") && r.Int:
		return &vh.CustomLeaf{WT: vh.WTVarInt, Body: func(v vh.Val) []byte {
			x := v.I + r.Offset
			return binary.AppendUvarint(nil, uint64(x<<1)^uint64(x>>63))
		}}
	case t.Kind == vh.KTime && r.BQ:
		return &vh.CustomLeaf{WT: vh.WTVarInt, Body: func(v vh.Val) []byte {
			tv := v.T
			if tv == nil {
				tv = &vh.TimeVal{Sec: vh.ZeroUnix}
			}
			return binary.AppendUvarint(nil, uint64(tv.Sec*1000000+int64(tv.Nsec)/1000))
		}}
	}
	return nil
}

func genC17Reg(t *rapid.T, useTag bool) c17Reg {
	r := c17Reg{
		Str: rapid.Bool().Draw(t, "regstr"), Marker: byte(rapid.IntRange(1, 250).Draw(t, "marker")),
		Int: rapid.Bool().Draw(t, "regint"), Offset: int64(rapid.IntRange(1, 1000).Draw(t, "offset")),
		TagInt: useTag || rapid.IntRange(0, 3).Draw(t, "regtag") == 0, TagOff: int64(rapid.IntRange(1, 1000).Draw(t, "tagoff")),
		BQ: rapid.IntRange(0, 2).Draw(t, "bq") == 0,
	}
	return r
}

func genC17Type(t *rapid.T, useTag bool) *vh.TSpec {
	X := []*vh.TSpec{vh.NamedT("MStr"), vh.NamedT("MInt"), vh.T(vh.KTime)}
	str := vh.T(vh.KString)
	n := rapid.IntRange(1, 6).Draw(t, "nf")
	var fs []vh.Field
	for i := 0; i < n; i++ {
		x := X[rapid.IntRange(0, 2).Draw(t, "x")]
		var ft *vh.TSpec
		opt := ""
		switch rapid.IntRange(0, 11).Draw(t, "pos") {
		case 9:
			// a named type without registration under a kind-level tag: the codec is derived,
			// and must be cached under its own (type, tag) key only
			ft = vh.NamedT("NInt")
			if rapid.Bool().Draw(t, "nptr") {
				ft = vh.PtrOf(ft)
			}
			opt = "flat"
		case 10:
			ft = vh.NamedT("NInt")
			if rapid.Bool().Draw(t, "nptr2") {
				ft = vh.PtrOf(ft)
			}
		case 11:
			ft = vh.SliceOf(vh.NamedT("NInt"))
			if rapid.IntRange(0, 2).Draw(t, "sliceflat") == 0 {
				opt = "flat" // an option on a slice never selects the elements' codec
			}
		case 0:
			ft = x
		case 1:
			ft = vh.PtrOf(x)
		case 2:
			ft = vh.SliceOf(x)
			if rapid.IntRange(0, 2).Draw(t, "sliceproto") == 0 {
				// the repeated form chosen by the field's option: the elements still use their registered codec
				if rapid.Bool().Draw(t, "sliceptr") {
					ft = vh.SliceOf(vh.PtrOf(x))
				}
				opt = "proto"
			}
		case 3:
			if x.Kind == vh.KTime {
				ft = vh.MapOf(str, x)
			} else {
				ft = vh.MapOf(x, vh.T(vh.KInt))
			}
		case 4:
			ft = vh.MapOf(str, x)
		case 5:
			ft = vh.StructOf(vh.F("In", 1, x), vh.F("P", 2, vh.PtrOf(x)))
		case 6:
			ft = vh.SliceOf(vh.StructOf(vh.F("In", 1, x)))
			if rapid.IntRange(0, 3).Draw(t, "structsproto") == 0 {
				opt = "proto"
			}
		case 7:
			ft = vh.T(vh.KInt) // plain neighbour
		default:
			// tagged registration: field or pointer target position
			if useTag {
				opt = "off"
				if rapid.Bool().Draw(t, "tagptr") {
					ft = vh.PtrOf(vh.NamedT("MInt"))
				} else {
					ft = vh.NamedT("MInt")
				}
			} else {
				ft = vh.NamedT("MInt")
			}
		}
		if x.Kind == vh.KNamed && x.Name == "MStr" && opt == "" && (ft == x) && rapid.IntRange(0, 3).Draw(t, "intern") == 0 {
			opt = "intern"
		}
		f := vh.F(fmt.Sprintf("F%d", i), i+1, ft)
		if opt != "" {
			f.Plenc += "," + opt
		}
		fs = append(fs, f)
	}
	return vh.StructOf(fs...)
}

// alignMicros truncates every time in v to whole microseconds in the range
// UnixMicro can express (BQTimestampCodec's documented resolution).
func alignMicros(t *vh.TSpec, v *vh.Val) {
	u := t.Under()
	switch u.Kind {
	case vh.KTime:
		if v.T != nil {
			v.T.Nsec -= v.T.Nsec % 1000
			if v.T.Sec > 1<<40 || v.T.Sec < -(1<<40) {
				v.T.Sec = 1700000000
			}
		}
	case vh.KPtr:
		if !v.Nil {
			alignMicros(u.Elem, v.P)
		}
	case vh.KSlice:
		for i := range v.L {
			alignMicros(u.Elem, &v.L[i])
		}
	case vh.KMap:
		for i := range v.M {
			alignMicros(u.Elem, &v.M[i].V)
		}
	case vh.KStruct:
		for i, f := range u.Fields {
			alignMicros(f.Type, &v.L[i])
		}
	}
}

var c17 = &vh.Prop[c17Case]{
	ID: "C17", Name: "registration-scoping",
	Gen: func(t *rapid.T) c17Case {
		var c c17Case
		c.UseTag = rapid.IntRange(0, 2).Draw(t, "usetag") == 0
		n := rapid.IntRange(2, 4).Draw(t, "ninst")
		for i := 0; i < n; i++ {
			cfg := vh.AllCfgs[rapid.IntRange(0, 3).Draw(t, "cfg")]
			c.Insts = append(c.Insts, c17Inst{Cfg: cfg, Reg: genC17Reg(t, c.UseTag)})
		}
		c.T = genC17Type(t, c.UseTag)
		c.V = vh.GenVal(t, c.T, vh.VProfile{Small: true, NoNilElems: true, JSONTimes: true})
		alignMicros(c.T, &c.V)
		c.Late = genC17Reg(t, true)
		return c
	},
	Run: func(c c17Case, x *vh.Ctx) *vh.Failure {
		vh.RequireOracle()
		defer func() { vh.RefCustom = nil }()
		if hasMultiEntryMap(c.T, c.V) {
			x.Label("skipped:multi-entry-map")
			return nil // byte-exact comparison only
		}
		type built struct {
			p    *plenc.Plenc
			data []byte
		}
		var bs []built
		expected := map[string]bool{}
		for i, in := range c.Insts {
			p := &plenc.Plenc{ProtoCompatibleArrays: in.Cfg.ProtoArrays, ProtoCompatibleTime: in.Cfg.ProtoTime}
			p.RegisterDefaultCodecs()
			in.Reg.apply(p)
			vh.RefCustom = in.Reg.custom
			want := vh.RefEncode(c.T, c.V, in.Cfg)
			vh.RefCustom = nil
			rv := vh.ToReflect(c.T, c.V)
			got, err := p.Marshal(nil, rv.Addr().Interface())
			if err != nil {
				return vh.Fail("C17/marshal-error", "instance %d: %v", i, err)
			}
			if !bytes.Equal(got, want) {
				return vh.Fail("C17/wrong-codec-used", "instance %d (%+v): Marshal % x\nexpected with this instance's registrations and options % x", i, in, got, want)
			}
			out := reflect.New(rv.Type())
			if err := p.Unmarshal(got, out.Interface()); err != nil {
				return vh.Fail("C17/unmarshal-error", "instance %d: %v", i, err)
			}
			if d := vh.Diff(c.T, vh.FromReflect(c.T, out.Elem()), vh.Normalise(c.T, c.V, in.Cfg)); d != "" {
				return vh.Fail("C17/roundtrip-mismatch", "instance %d: differs at %s", i, d)
			}
			bs = append(bs, built{p, got})
			expected[string(want)] = true
		}
		// registering somewhere else afterwards changes nothing for instances that exist already
		late := &plenc.Plenc{}
		late.RegisterDefaultCodecs()
		c.Late.apply(late)
		rv := vh.ToReflect(c.T, c.V)
		if _, err := late.Marshal(nil, rv.Addr().Interface()); err != nil {
			return vh.Fail("C17/marshal-error", "late instance: %v", err)
		}
		for i, b := range bs {
			again, err := b.p.Marshal(nil, rv.Addr().Interface())
			if err != nil || !bytes.Equal(again, b.data) {
				return vh.Fail("C17/registration-leaked-between-instances", "instance %d changed its output after a registration on another instance: % x -> % x (%v)", i, b.data, again, err)
			}
		}
		// package-level functions == a default-configured instance; neither saw any registration
		var def plenc.Plenc
		def.RegisterDefaultCodecs()
		d1, err1 := def.Marshal(nil, rv.Addr().Interface())
		d2, err2 := plenc.Marshal(nil, rv.Addr().Interface())
		if c.UseTag && typeUsesTag(c.T) {
			// nobody registered the "off" tag on the default instances: both must refuse alike
			if (err1 == nil) != (err2 == nil) || err1 == nil {
				return vh.Fail("C17/registration-leaked-to-default", "a type using a tag registered only on other instances: default instance err=%v, package level err=%v", err1, err2)
			}
			x.Label("tagged-registration")
			if len(expected) >= 2 {
				x.NonTrivial()
			}
			return nil
		}
		if err1 != nil || err2 != nil || !bytes.Equal(d1, d2) {
			return vh.Fail("C17/package-level-differs-from-default-instance", "default instance % x (%v), package level % x (%v)", d1, err1, d2, err2)
		}
		plain := vh.RefEncode(c.T, c.V, vh.Cfg{})
		if !bytes.Equal(d2, plain) {
			return vh.Fail("C17/registration-leaked-to-default", "package-level Marshal % x, expected the kind-based encoding % x", d2, plain)
		}
		o1 := reflect.New(rv.Type())
		o2 := reflect.New(rv.Type())
		e1, e2 := def.Unmarshal(d1, o1.Interface()), plenc.Unmarshal(d1, o2.Interface())
		if e1 != nil || e2 != nil || vh.Diff(c.T, vh.FromReflect(c.T, o1.Elem()), vh.FromReflect(c.T, o2.Elem())) != "" {
			return vh.Fail("C17/package-level-differs-from-default-instance", "Unmarshal differs (%v, %v)", e1, e2)
		}
		if cdc, err := plenc.CodecForType(rv.Type()); err != nil || cdc == nil {
			return vh.Fail("C17/package-level-differs-from-default-instance", "CodecForType: %v", err)
		}
		x.Label(fmt.Sprintf("distinct-expected-encodings:%d", len(expected)))
		x.LabelIf(c.UseTag, "tagged-registration")
		if len(expected) >= 2 {
			x.NonTrivial()
		}
		return nil
	},
}

func typeUsesTag(t *vh.TSpec) bool { return hasOpt(t, "off") }

// refNodeCodec encodes a *RefNode-typed position as the node's ID only (a
// reference), registered for (RefNode, "ref").
type refNodeCodec struct{ k int64 }

func (c refNodeCodec) Omit(ptr unsafe.Pointer) bool { return false }
func (c refNodeCodec) New() unsafe.Pointer          { return unsafe.Pointer(new(vh.RefNode)) }
func (c refNodeCodec) WireType() plenccore.WireType { return plenccore.WTVarInt }
func (c refNodeCodec) Descriptor() plenccodec.Descriptor {
	return plenccodec.Descriptor{Type: plenccodec.FieldTypeInt}
}
func (c refNodeCodec) Size(ptr unsafe.Pointer, tag []byte) int {
	return len(tag) + plenccore.SizeVarInt(int64((*vh.RefNode)(ptr).ID)+c.k)
}
func (c refNodeCodec) Append(data []byte, ptr unsafe.Pointer, tag []byte) []byte {
	data = append(data, tag...)
	return plenccore.AppendVarInt(data, int64((*vh.RefNode)(ptr).ID)+c.k)
}
func (c refNodeCodec) Read(data []byte, ptr unsafe.Pointer, wt plenccore.WireType) (int, error) {
	v, n := plenccore.ReadVarInt(data)
	if n <= 0 {
		return 0, fmt.Errorf("corrupt")
	}
	(*vh.RefNode)(ptr).ID = int(v - c.k)
	return n, nil
}

type c17RefCase struct {
	K     int64 `json:"k"`
	IDs   []int `json:"ids"`   // chain of nodes, child first
	First int   `json:"first"` // which type the instance meets first: 0 RefNode, 1 *RefNode, 2 []RefNode, 3 struct with a ref-tagged field
}

type c17Holder struct {
	N vh.RefNode  `plenc:"1"`
	P *vh.RefNode `plenc:"2,ref"`
}

// c17Ref: a codec registered under a tag for a recursive struct type is the one used
// for the tagged self-reference, whatever the instance built first.
var c17Ref = &vh.Prop[c17RefCase]{
	ID: "C17", Name: "tagged-codec-for-recursive-type",
	Gen: func(t *rapid.T) c17RefCase {
		n := rapid.IntRange(1, 4).Draw(t, "chain")
		ids := make([]int, n)
		for i := range ids {
			ids[i] = rapid.IntRange(-3, 300).Draw(t, "id")
		}
		return c17RefCase{K: int64(rapid.IntRange(0, 50).Draw(t, "k")), IDs: ids, First: rapid.IntRange(0, 3).Draw(t, "first")}
	},
	Run: func(c c17RefCase, x *vh.Ctx) *vh.Failure {
		p := &plenc.Plenc{}
		p.RegisterDefaultCodecs()
		p.RegisterCodecWithTag(reflect.TypeOf(vh.RefNode{}), "ref", refNodeCodec{c.K})
		var root *vh.RefNode
		for i := len(c.IDs) - 1; i >= 0; i-- {
			root = &vh.RefNode{ID: c.IDs[i], Parent: root, Name: fmt.Sprint("n", i)}
		}
		first := []reflect.Type{reflect.TypeOf(vh.RefNode{}), reflect.TypeOf(&vh.RefNode{}), reflect.TypeOf([]vh.RefNode{}), reflect.TypeOf(c17Holder{})}[c.First]
		if _, err := p.CodecForType(first); err != nil {
			return vh.Fail("C17/codec-error", "%v", err)
		}
		// expected: ID, then (if there is a parent) field 2 as a zig-zag varint of parent.ID+k, then the name
		exp := func(n *vh.RefNode) []byte {
			var b []byte
			if n.ID != 0 {
				b = append(b, 0x08)
				b = binary.AppendUvarint(b, uint64(int64(n.ID)<<1)^uint64(int64(n.ID)>>63))
			}
			if n.Parent != nil {
				v := int64(n.Parent.ID) + c.K
				b = append(b, 0x10)
				b = binary.AppendUvarint(b, uint64(v<<1)^uint64(v>>63))
			}
			b = append(b, 0x1a, byte(len(n.Name)))
			return append(b, n.Name...)
		}
		got, err := p.Marshal(nil, root)
		if err != nil {
			return vh.Fail("C17/marshal-error", "%v", err)
		}
		if want := exp(root); !bytes.Equal(got, want) {
			return vh.Fail("C17/wrong-codec-used", "RefNode with a (RefNode, \"ref\") registration (first built: %s): Marshal % x, expected % x", first, got, want)
		}
		h := c17Holder{N: *root, P: root}
		got, err = p.Marshal(nil, &h)
		if err != nil {
			return vh.Fail("C17/marshal-error", "%v", err)
		}
		body := exp(root)
		want := append([]byte{0x0a, byte(len(body))}, body...)
		v := int64(root.ID) + c.K
		want = append(want, 0x10)
		want = binary.AppendUvarint(want, uint64(v<<1)^uint64(v>>63))
		if len(body) < 128 && !bytes.Equal(got, want) {
			return vh.Fail("C17/wrong-codec-used", "struct with a ref-tagged *RefNode field: Marshal % x, expected % x", got, want)
		}
		var out vh.RefNode
		if err := p.Unmarshal(exp(root), &out); err != nil {
			return vh.Fail("C17/unmarshal-error", "%v", err)
		}
		if out.ID != root.ID || (root.Parent != nil) != (out.Parent != nil) || (root.Parent != nil && out.Parent.ID != root.Parent.ID) {
			return vh.Fail("C17/roundtrip-mismatch", "decoded %+v", out)
		}
		if len(c.IDs) > 1 {
			x.NonTrivial()
		}
		return nil
	},
}

func TestC17RecursiveTagged(t *testing.T) { c17Ref.Check(t, vh.N(3000, 20000)) }

func init() { registrars = append(registrars, c17.Register, c17Ref.Register, c17Pkg.Register) }

func TestC17(t *testing.T) { c17.Check(t, vh.N(15000, 40000)) }

// Package-level registration: plenc.RegisterCodec / RegisterCodecWithTag act on the
// package-level default instance - and on nothing else. The types are used by this
// sub-check only, so the (process-wide) registration cannot disturb other checks.
type c17PkgPlain struct {
	N int `plenc:"1"`
}
type c17PkgTagged struct {
	N int `plenc:"1"`
}
type c17PkgHolder struct {
	A c17PkgPlain   `plenc:"1"`
	B c17PkgTagged  `plenc:"2,c17pkg"`
	C []c17PkgPlain `plenc:"3"`
}

// c17PkgCodec writes N+k as a plain varint (a struct would be length-delimited).
type c17PkgCodec struct {
	k   int
	typ reflect.Type
}

func (c c17PkgCodec) Omit(ptr unsafe.Pointer) bool { return false }
func (c c17PkgCodec) New() unsafe.Pointer          { return reflect.New(c.typ).UnsafePointer() }
func (c c17PkgCodec) WireType() plenccore.WireType { return plenccore.WTVarInt }
func (c c17PkgCodec) Descriptor() plenccodec.Descriptor {
	return plenccodec.Descriptor{Type: plenccodec.FieldTypeUint}
}
func (c c17PkgCodec) Size(ptr unsafe.Pointer, tag []byte) int {
	return len(tag) + plenccore.SizeVarUint(uint64(*(*int)(ptr)+c.k))
}
func (c c17PkgCodec) Append(data []byte, ptr unsafe.Pointer, tag []byte) []byte {
	data = append(data, tag...)
	return plenccore.AppendVarUint(data, uint64(*(*int)(ptr)+c.k))
}
func (c c17PkgCodec) Read(data []byte, ptr unsafe.Pointer, wt plenccore.WireType) (int, error) {
	v, n := plenccore.ReadVarUint(data)
	if n <= 0 {
		return 0, fmt.Errorf("corrupt")
	}
	*(*int)(ptr) = int(v) - c.k
	return n, nil
}

var c17PkgOnce sync.Once

type c17PkgCase struct {
	A, B int
	C    []int
}

var c17Pkg = &vh.Prop[c17PkgCase]{
	ID: "C17", Name: "package-level-registration",
	Gen: func(t *rapid.T) c17PkgCase {
		return c17PkgCase{A: rapid.IntRange(0, 1000).Draw(t, "a"), B: rapid.IntRange(0, 1000).Draw(t, "b"), C: rapid.SliceOfN(rapid.IntRange(0, 300), 0, 4).Draw(t, "c")}
	},
	Run: func(c c17PkgCase, x *vh.Ctx) *vh.Failure {
		// an instance created before the package-level registrations happen, and one created after
		before := &plenc.Plenc{}
		before.RegisterDefaultCodecs()
		c17PkgOnce.Do(func() {
			plenc.RegisterCodec(reflect.TypeOf(c17PkgPlain{}), c17PkgCodec{k: 5, typ: reflect.TypeOf(c17PkgPlain{})})
			plenc.RegisterCodecWithTag(reflect.TypeOf(c17PkgTagged{}), "c17pkg", c17PkgCodec{k: 9, typ: reflect.TypeOf(c17PkgTagged{})})
		})
		h := c17PkgHolder{A: c17PkgPlain{c.A}, B: c17PkgTagged{c.B}}
		for _, n := range c.C {
			h.C = append(h.C, c17PkgPlain{n})
		}
		got, err := plenc.Marshal(nil, &h)
		if err != nil {
			return vh.Fail("C17/package-level-registration-unused", "package-level Marshal after package-level RegisterCodec / RegisterCodecWithTag: %v", err)
		}
		want := binary.AppendUvarint([]byte{0x08}, uint64(c.A+5))
		want = binary.AppendUvarint(append(want, 0x10), uint64(c.B+9))
		if len(c.C) > 0 {
			var body []byte
			for _, n := range c.C {
				body = binary.AppendUvarint(body, uint64(n+5))
			}
			want = binary.AppendUvarint(append(want, 0x1a), uint64(len(body)))
			want = append(want, body...)
		}
		if !bytes.Equal(got, want) {
			return vh.Fail("C17/package-level-registration-unused", "package-level Marshal % x, expected % x (codecs registered through the package-level functions)", got, want)
		}
		var back c17PkgHolder
		if err := plenc.Unmarshal(got, &back); err != nil || !reflect.DeepEqual(back, h) {
			return vh.Fail("C17/package-level-registration-unused", "package-level Unmarshal: %v, %+v", err, back)
		}
		// instances do not see it: there both types are plain structs (an option without a codec of its
		// own on a struct-typed field falls back to the struct's codec)
		for name, p := range map[string]*plenc.Plenc{"earlier": before, "later": func() *plenc.Plenc { p := &plenc.Plenc{}; p.RegisterDefaultCodecs(); return p }()} {
			ib, err := p.Marshal(nil, &h)
			if err != nil {
				return vh.Fail("C17/instance-marshal-error", "%s instance: %v", name, err)
			}
			if bytes.Equal(ib, got) {
				return vh.Fail("C17/registration-leaked-to-instance", "%s instance encodes the holder as % x, exactly what the package-level codecs produce", name, ib)
			}
			var iback c17PkgHolder
			if err := p.Unmarshal(ib, &iback); err != nil || iback.A != h.A || iback.B != h.B || len(iback.C) != len(h.C) {
				return vh.Fail("C17/instance-roundtrip", "%s instance: %v, %+v", name, err, iback)
			}
			pl := c17PkgPlain{c.A}
			b, err := p.Marshal(nil, &pl)
			wantPlain := []byte(nil)
			if c.A != 0 {
				wantPlain = binary.AppendUvarint([]byte{0x08}, uint64(int64(c.A)<<1))
			}
			if err != nil || !bytes.Equal(b, wantPlain) {
				return vh.Fail("C17/registration-leaked-to-instance", "%s instance encodes c17PkgPlain{%d} as % x (%v), expected the plain struct encoding % x", name, c.A, b, err, wantPlain)
			}
		}
		x.NonTrivial()
		return nil
	},
}

func TestC17PackageLevelRegistration(t *testing.T) { c17Pkg.Check(t, vh.N(2000, 10000)) }
