//go:build verif

package props

import (
	"bytes"
	"fmt"
	"os"
	"reflect"
	"runtime"
	"strings"
	"sync"
	"testing"
	"unsafe"

	"github.com/philpearl/plenc"
	"github.com/philpearl/plenc/plenccodec"
	"pgregory.net/rapid"

	"verifharness/vh"
)

// C19: interning is transparent - same strings as without it, under any
// history and from any number of goroutines; interned strings are private,
// immutable copies.

type c19Case struct {
	Shape   int        `json:"shape"`
	Steps   [][]vh.Val `json:"steps"`   // per goroutine: the sequence of values decoded
	Choices []int      `json:"choices"` // schedule (only with more than one goroutine)
	// Prefill: distinct strings decoded through every interned field of the instance, one after the
	// other, before the goroutines start - so that their misses happen on tables of that size
	Prefill int `json:"prefill,omitempty"`
}

// c19Shapes returns (interned type, twin without the intern option).
func c19Shape(i int) (*vh.TSpec, *vh.TSpec) {
	mk := func(intern bool) *vh.TSpec {
		f := func(name string, idx int, t *vh.TSpec) vh.Field {
			if intern {
				return vh.FOpt(name, idx, "intern", t)
			}
			return vh.F(name, idx, t)
		}
		str := vh.T(vh.KString)
		switch i {
		case 0:
			return vh.StructOf(f("S", 1, str), f("T", 2, str), f("N", 3, vh.T(vh.KNullString)), vh.F("X", 4, vh.T(vh.KInt)), vh.F("Plain", 5, str))
		case 1:
			return vh.StructOf(
				vh.F("L", 1, vh.SliceOf(vh.StructOf(f("I", 1, str), vh.F("J", 2, str)))),
				vh.F("M", 2, vh.MapOf(str, vh.StructOf(f("V", 1, str)))))
		default:
			return vh.StructOf(vh.F("P", 1, vh.PtrOf(vh.StructOf(f("S", 7, str)))), f("S", 2, vh.NamedT("NString")), f("N", 3, vh.T(vh.KNullString)))
		}
	}
	return mk(true), mk(false)
}

var c19Alphabet = [][]byte{
	{}, []byte("a"), []byte("ab"), []byte("abc"), []byte("abd"), []byte("b"), {0x00, 0xff}, {0x00}, []byte("key"), []byte("value"),
	bytes.Repeat([]byte("x"), 127), bytes.Repeat([]byte("x"), 128), bytes.Repeat([]byte("long-"), 60), []byte("日本"), {0xc3, 0x28},
}

// rarely used: sizes beyond what slab / chunk based storage would hold in one piece
var c19BigStrings = [][]byte{bytes.Repeat([]byte("y"), 16384), bytes.Repeat([]byte("z"), 65537), bytes.Repeat([]byte("w"), 70001)}

// c19Strings replaces every string in v by one from the small alphabet (or a fresh one).
func c19Strings(t *rapid.T, ts *vh.TSpec, v *vh.Val) {
	u := ts.Under()
	switch u.Kind {
	case vh.KString:
		if rapid.IntRange(0, 5).Draw(t, "fresh") == 0 {
			v.S = []byte(rapid.StringN(0, 6, -1).Draw(t, "s"))
		} else if rapid.IntRange(0, 150).Draw(t, "bigstr") == 0 {
			v.S = append([]byte{}, c19BigStrings[rapid.IntRange(0, len(c19BigStrings)-1).Draw(t, "bs")]...)
		} else {
			v.S = append([]byte{}, c19Alphabet[rapid.IntRange(0, len(c19Alphabet)-1).Draw(t, "a")]...)
		}
	case vh.KNullString:
		if !v.Nil {
			c19Strings(t, vh.T(vh.KString), v.P)
		}
	case vh.KPtr:
		if !v.Nil {
			c19Strings(t, u.Elem, v.P)
		}
	case vh.KSlice:
		for i := range v.L {
			c19Strings(t, u.Elem, &v.L[i])
		}
	case vh.KMap:
		for i := range v.M {
			c19Strings(t, u.Elem, &v.M[i].V)
		}
	case vh.KStruct:
		for i, f := range u.Fields {
			c19Strings(t, f.Type, &v.L[i])
		}
	}
}

func genC19(t *rapid.T, maxG int) c19Case {
	c := c19Case{Shape: rapid.IntRange(0, 2).Draw(t, "shape")}
	it, _ := c19Shape(c.Shape)
	g := 1
	if maxG > 1 {
		g = rapid.IntRange(2, maxG).Draw(t, "goroutines")
	}
	for i := 0; i < g; i++ {
		n := rapid.IntRange(2, 8).Draw(t, "nsteps")
		var seq []vh.Val
		for j := 0; j < n; j++ {
			v := vh.GenVal(t, it, vh.VProfile{Small: true})
			c19Strings(t, it, &v)
			seq = append(seq, v)
		}
		c.Steps = append(c.Steps, seq)
	}
	if g > 1 {
		nch := rapid.IntRange(0, 40).Draw(t, "nchoices")
		for i := 0; i < nch; i++ {
			ch := 0
			if rapid.IntRange(0, 2).Draw(t, "pre") == 0 {
				ch = rapid.IntRange(1, 3).Draw(t, "to")
			}
			c.Choices = append(c.Choices, ch)
		}
	}
	return c
}

type c19Kept struct {
	rv   reflect.Value
	want vh.Val
}

// decodeSeq decodes a sequence through the interned type from ONE re-used
// buffer that is overwritten between calls, re-checking everything ever
// returned after every step.
func c19DecodeSeq(c c19Case, g int, p *plenc.Plenc, stats *[3]int) *vh.Failure {
	it, tw := c19Shape(c.Shape)
	irt := it.Build()
	buf := make([]byte, 0, 8192)
	var kept []c19Kept
	seen := map[string]bool{}
	// one pair of targets that is re-used for every step: the interned type must
	// merge into a populated target exactly as the plain type does
	reusedI := reflect.New(irt)
	reusedT := reflect.New(tw.Build())
	for si, v := range c.Steps[g] {
		// encoding: the option does not change it
		twinBytes, err := p.Marshal(nil, vh.ToReflect(tw, v).Addr().Interface())
		if err != nil {
			return vh.Fail("C19/marshal-error", "%v", err)
		}
		out, err := p.Marshal(buf[:0], vh.ToReflect(it, v).Addr().Interface())
		if err != nil {
			return vh.Fail("C19/marshal-error", "%v", err)
		}
		if !hasMultiEntryMap(it, v) && !bytes.Equal(out, twinBytes) {
			return vh.Fail("C19/encoding-changed-by-intern", "goroutine %d step %d: % x with intern, % x without", g, si, out, twinBytes)
		}
		if len(out) > cap(buf) {
			buf = make([]byte, 0, 2*len(out))
			out = append(buf[:0], out...)
		}
		buf = out
		// twin decode from a private copy is the expectation
		want, err := vh.UnmarshalFresh(p, tw, append([]byte{}, buf...))
		if err != nil {
			return vh.Fail("C19/unmarshal-error", "twin: %v", err)
		}
		target := reflect.New(irt)
		if err := p.Unmarshal(buf, target.Interface()); err != nil {
			return vh.Fail("C19/unmarshal-error", "interned: %v", err)
		}
		got := vh.FromReflect(it, target.Elem())
		// the twin type has the same shape: compare through the interned type's spec
		if d := vh.Diff(it, got, want); d != "" {
			return vh.Fail("C19/interned-decode-differs", "goroutine %d step %d: differs from the decode without intern at %s", g, si, d)
		}
		// no decoded string points into the caller's buffer
		var mem []memRange
		memRanges(target.Elem(), "out", &mem, 0)
		lo := uintptr(unsafe.Pointer(unsafe.SliceData(buf[:1])))
		hi := lo + uintptr(cap(buf))
		for _, r := range mem {
			if overlaps(r, lo, hi) {
				return vh.Fail("C19/interned-aliases-input", "goroutine %d step %d: %s points into the input buffer", g, si, r.what)
			}
		}
		if err := p.Unmarshal(buf, reusedI.Interface()); err != nil {
			return vh.Fail("C19/unmarshal-error", "interned, re-used target: %v", err)
		}
		if err := p.Unmarshal(append([]byte{}, buf...), reusedT.Interface()); err != nil {
			return vh.Fail("C19/unmarshal-error", "twin, re-used target: %v", err)
		}
		if d := vh.Diff(it, vh.FromReflect(it, reusedI.Elem()), vh.FromReflect(tw, reusedT.Elem())); d != "" {
			return vh.Fail("C19/interned-decode-differs-on-reused-target", "goroutine %d step %d: decoding into a re-used target differs from the type without intern at %s", g, si, d)
		}
		kept = append(kept, c19Kept{target.Elem(), got})
		// overwrite the whole buffer before the next call
		full := buf[:cap(buf)]
		for i := range full {
			full[i] = 0x5A ^ byte(i)
		}
		stats[1]++
		// everything ever returned is still what it was (long histories: every 64th step and at the end)
		if len(c.Steps[g]) > 64 && si%64 != 0 && si != len(c.Steps[g])-1 {
			collectStrings(it, got, func(s string) {
				if seen[s] {
					stats[2]++
				}
				seen[s] = true
			})
			continue
		}
		for ki, k := range kept {
			if d := vh.Diff(it, vh.FromReflect(it, k.rv), k.want); d != "" {
				return vh.Fail("C19/interned-string-changed-later", "goroutine %d: result of step %d changed after step %d at %s", g, ki, si, d)
			}
		}
		collectStrings(it, got, func(s string) {
			if seen[s] {
				stats[2]++ // a repeat after the table already held it
			}
			seen[s] = true
		})
	}
	stats[0] = len(seen)
	return nil
}

func collectStrings(t *vh.TSpec, v vh.Val, fn func(string)) {
	u := t.Under()
	switch u.Kind {
	case vh.KString:
		fn(string(v.S))
	case vh.KNullString:
		if !v.Nil {
			fn(string(v.P.S))
		}
	case vh.KPtr:
		if !v.Nil {
			collectStrings(u.Elem, *v.P, fn)
		}
	case vh.KSlice:
		for i := range v.L {
			collectStrings(u.Elem, v.L[i], fn)
		}
	case vh.KMap:
		for i := range v.M {
			collectStrings(u.Elem, v.M[i].V, fn)
		}
	case vh.KStruct:
		for i, f := range u.Fields {
			collectStrings(f.Type, v.L[i], fn)
		}
	}
}

func c19Run(c c19Case, x *vh.Ctx) *vh.Failure {
	x.Label(fmt.Sprintf("shape:%d", c.Shape))
	x.Label(fmt.Sprintf("goroutines:%d", len(c.Steps)))
	p := vh.NewPlenc(vh.Cfg{})
	if len(c.Steps) == 1 {
		var st [3]int
		if f := c19DecodeSeq(c, 0, p, &st); f != nil {
			return f
		}
		if st[0] >= 3 && st[2] >= 1 && st[1] >= 2 {
			x.NonTrivial()
		}
		return nil
	}
	if c.Prefill > 0 {
		it, _ := c19Shape(c.Shape)
		irt := it.Build()
		for i := 0; i < c.Prefill; i++ {
			v := c07FixedVal(it)
			setStrings(it, &v, func() []byte { return []byte(fmt.Sprintf("pre-%d", i)) })
			data, err := p.Marshal(nil, vh.ToReflect(it, v).Addr().Interface())
			if err != nil {
				return vh.Fail("C19/marshal-error", "prefill: %v", err)
			}
			if err := p.Unmarshal(data, reflect.New(irt).Interface()); err != nil {
				return vh.Fail("C19/unmarshal-error", "prefill: %v", err)
			}
		}
		x.Label(fmt.Sprintf("prefill:%d", (c.Prefill+8)/16*16))
	}
	fails := make([]*vh.Failure, len(c.Steps))
	stats := make([][3]int, len(c.Steps))
	workers := make([]func(), len(c.Steps))
	for g := range c.Steps {
		g := g
		workers[g] = func() {
			fails[g] = vh.Guard("C19", func() *vh.Failure { return c19DecodeSeq(c, g, p, &stats[g]) })
		}
	}
	s := &vh.Sched{}
	plenccodec.SetVerifYield(s.Yield)
	err := s.Run(workers, c.Choices)
	plenccodec.SetVerifYield(nil)
	if err != nil {
		return vh.Fail("C19/deadlock", "%v", err)
	}
	for g, f := range fails {
		if f != nil {
			f.Msg += fmt.Sprintf("\n(goroutine %d, %d preemptions at %v)", g, s.Preempt, s.PreemptPoints)
			return f
		}
	}
	atMiss := false
	for _, pt := range s.PreemptPoints {
		if pt == "intern-miss" {
			atMiss = true
		}
	}
	x.LabelIf(atMiss, "preempt-at:intern-miss")
	if atMiss {
		x.NonTrivial()
	}
	return nil
}

var c19Seq = &vh.Prop[c19Case]{ID: "C19", Name: "sequential-history", Gen: func(t *rapid.T) c19Case { return genC19(t, 1) }, Run: c19Run}
var c19Sched = &vh.Prop[c19Case]{ID: "C19", Name: "owned-schedule", Slow: 4, Gen: func(t *rapid.T) c19Case {
	c := genC19(t, 3)
	// sometimes the tables are just below a power of two (where a size cap or a growth step would sit)
	// when the goroutines start to miss
	if rapid.IntRange(0, 15).Draw(t, "prefilled") == 0 {
		bases := []int{256, 1024, 1024}
		if vh.Thorough() {
			bases = []int{256, 1024, 1024, 1024, 256, 1024, 1024, 4096}
		}
		c.Prefill = bases[rapid.IntRange(0, len(bases)-1).Draw(t, "prebase")] - rapid.IntRange(0, 8).Draw(t, "preoff")
	}
	return c
}, Run: c19Run}

func TestC19Sequential(t *testing.T) { c19Seq.Check(t, vh.N(4000, 40000)) }

// c19Long: long single-field histories, so that the interning table grows to
// hundreds of entries (table-size dependent behaviour) with repeats in between.
type c19LongCase struct {
	Shape    int `json:"shape"`
	Distinct int `json:"distinct"` // number of distinct strings fed through the interned fields
	Stride   int `json:"stride"`   // every stride-th step repeats an earlier string
}

var c19Long = &vh.Prop[c19LongCase]{
	ID: "C19", Name: "long-history", Slow: 20,
	Gen: func(t *rapid.T) c19LongCase {
		c := c19LongCase{Shape: rapid.IntRange(0, 2).Draw(t, "shape"), Distinct: []int{40, 130, 260, 300, 520, 1100}[rapid.IntRange(0, 5).Draw(t, "distinct")],
			Stride: rapid.IntRange(2, 9).Draw(t, "stride")}
		// one history in five has an arbitrary length beyond those: a table-size threshold that is
		// neither a power of two nor on the list (a cap of 2500 entries, say) is crossed as well
		if rapid.IntRange(0, 4).Draw(t, "arbitrary-length") == 0 {
			c.Distinct = rapid.IntRange(1101, vh.N(6000, 24000)).Draw(t, "distinct-arbitrary")
		}
		return c
	},
	Run: func(c c19LongCase, x *vh.Ctx) *vh.Failure {
		it, _ := c19Shape(c.Shape)
		cc := c19Case{Shape: c.Shape}
		var seq []vh.Val
		k := 0
		for i := 0; i < c.Distinct; i++ {
			v := c07FixedVal(it)
			setStrings(it, &v, func() []byte {
				k++
				if k%c.Stride == 0 {
					return []byte(fmt.Sprintf("str-%d", (k*7)%(i+1))) // a repeat of something seen earlier
				}
				return []byte(fmt.Sprintf("str-%d", i))
			})
			seq = append(seq, v)
		}
		cc.Steps = [][]vh.Val{seq}
		var st [3]int
		if f := c19DecodeSeq(cc, 0, vh.NewPlenc(vh.Cfg{}), &st); f != nil {
			return f
		}
		x.Label(fmt.Sprintf("distinct-strings:%s", c19Bucket(c.Distinct)))
		x.NonTrivial()
		return nil
	},
}

// c19Bucket names the table-size class of a long history for the evidence labels.
func c19Bucket(n int) string {
	switch {
	case n <= 1100:
		return fmt.Sprint(n)
	case n <= 2048:
		return "1101-2048"
	case n <= 4096:
		return "2049-4096"
	case n <= 8192:
		return "4097-8192"
	}
	return ">8192"
}

func TestC19LongHistory(t *testing.T) { c19Long.Check(t, vh.N(40, 400)) }

// The same long histories decide C11's "interned strings never share memory with the
// input" for table sizes that short cases do not reach; reported under C11.
var c11Long = &vh.Prop[c19LongCase]{
	ID: "C11", Name: "interned-long-history", Slow: 20,
	Gen: c19Long.Gen,
	Run: func(c c19LongCase, x *vh.Ctx) *vh.Failure {
		f := c19Long.Run(c, x)
		if f != nil && strings.HasPrefix(f.Class, "C19/") {
			f.Class = "C11/" + strings.TrimPrefix(f.Class, "C19/")
		}
		return f
	},
}

func TestC11LongHistory(t *testing.T) { c11Long.Check(t, vh.N(25, 250)) }

// thorough, first shard: > 2^14 distinct strings through one interned field, under C11 and C10
func TestC11HugeInternHistory(t *testing.T) {
	if !vh.Thorough() || os.Getenv("VERIF_SHARD") != "0" {
		t.Skip("thorough tier, first shard only")
	}
	if f := c11Long.One(c19LongCase{Shape: 1, Distinct: 11000, Stride: 7}); f != nil {
		t.Fatalf("C11/interned-long-history %s", f.Error())
	}
}

// c10Long: history independence of decodes through an interned field after a very long history.
var c10Long = &vh.Prop[c19LongCase]{
	ID: "C10", Name: "interned-long-history", Slow: 20,
	Gen: c19Long.Gen,
	Run: func(c c19LongCase, x *vh.Ctx) *vh.Failure {
		f := c19Long.Run(c, x)
		if f != nil && strings.HasPrefix(f.Class, "C19/") {
			f.Class = "C10/" + strings.TrimPrefix(f.Class, "C19/")
		}
		return f
	},
}

func TestC10LongInternHistory(t *testing.T) { c10Long.Check(t, vh.N(15, 150)) }

func TestC10HugeInternHistory(t *testing.T) {
	if !vh.Thorough() || os.Getenv("VERIF_SHARD") != "0" {
		t.Skip("thorough tier, first shard only")
	}
	if f := c10Long.One(c19LongCase{Shape: 1, Distinct: 17000, Stride: 6}); f != nil {
		t.Fatalf("C10/interned-long-history %s", f.Error())
	}
}

// TestC19HugeHistory (thorough): one history with more than 2^14 distinct
// strings through the interned fields (table sizes no short history reaches).
func TestC19HugeHistory(t *testing.T) {
	if !vh.Thorough() || os.Getenv("VERIF_SHARD") != "0" {
		t.Skip("thorough tier, first shard only")
	}
	if f := c19Long.One(c19LongCase{Shape: 1, Distinct: 17000, Stride: 5}); f != nil {
		t.Fatalf("C19/long-history %s", f.Error())
	}
}
func TestC19Schedules(t *testing.T) { c19Sched.Check(t, vh.N(1200, 12000)) }

// TestC19Race: 2-8 free-running goroutines decode through one shared instance (run with -race).
func TestC19Race(t *testing.T) {
	st := vh.NewStats("C19", "free-running-race")
	runtime.GOMAXPROCS(16)
	rounds := vh.N(300, 6000)
	for r := 0; r < rounds; r++ {
		shape := r % 3
		it, _ := c19Shape(shape)
		g := 2 + r%7
		c := c19Case{Shape: shape}
		for i := 0; i < g; i++ {
			var seq []vh.Val
			for j := 0; j < 6; j++ {
				v := c07FixedVal(it)
				k := (r*31 + i*7 + j*3)
				setStrings(it, &v, func() []byte { k++; return c19Alphabet[k%len(c19Alphabet)] })
				seq = append(seq, v)
			}
			c.Steps = append(c.Steps, seq)
		}
		p := vh.NewPlenc(vh.Cfg{})
		fails := make([]*vh.Failure, g)
		var wg sync.WaitGroup
		start := make(chan struct{})
		for i := 0; i < g; i++ {
			wg.Add(1)
			go func(i int) {
				defer wg.Done()
				<-start
				var s3 [3]int
				fails[i] = vh.Guard("C19", func() *vh.Failure { return c19DecodeSeq(c, i, p, &s3) })
			}(i)
		}
		close(start)
		wg.Wait()
		for _, f := range fails {
			if f != nil {
				vh.WriteFailure("C19", "owned-schedule", c, f)
				t.Fatalf("%s", f.Error())
			}
		}
		st.Record([]byte(fmt.Sprintf("%d|%d|%d", shape, g, r%97)), true, []string{fmt.Sprintf("goroutines:%d", g)}, func() any {
			return map[string]any{"shape": shape, "goroutines": g, "steps_each": 6}
		})
	}
}

func setStrings(ts *vh.TSpec, v *vh.Val, next func() []byte) {
	u := ts.Under()
	switch u.Kind {
	case vh.KString:
		v.S = append([]byte{}, next()...)
	case vh.KNullString:
		if !v.Nil {
			v.P.S = append([]byte{}, next()...)
		}
	case vh.KPtr:
		if !v.Nil {
			setStrings(u.Elem, v.P, next)
		}
	case vh.KSlice:
		for i := range v.L {
			setStrings(u.Elem, &v.L[i], next)
		}
	case vh.KMap:
		for i := range v.M {
			setStrings(u.Elem, &v.M[i].V, next)
		}
	case vh.KStruct:
		for i, f := range u.Fields {
			setStrings(f.Type, &v.L[i], next)
		}
	}
}

func init() {
	registrars = append(registrars, c19Seq.Register, c19Sched.Register, c19Long.Register, c11Long.Register, c10Long.Register)
}
