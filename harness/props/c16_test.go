package props

import (
	"bytes"
	"encoding/binary"
	"encoding/json"
	"fmt"
	"math"
	"reflect"
	"regexp"
	"strconv"
	"strings"
	"testing"
	"unsafe"

	"github.com/philpearl/plenc"
	"github.com/philpearl/plenc/plenccodec"
	"github.com/philpearl/plenc/plenccore"
	"pgregory.net/rapid"

	"verifharness/vh"
)

// C16: the JSON-any codecs round-trip every JSON-model value, at top level,
// as a struct field, behind a pointer and as a skipped unknown field; the
// descriptor renders equal JSON.

type jany struct {
	K    string   `json:"k"` // nil bool int f64 str num arr obj
	B    bool     `json:"b,omitempty"`
	I    int64    `json:"i,omitempty"`
	F    uint64   `json:"f,omitempty"`
	S    []byte   `json:"s,omitempty"`
	Nil  bool     `json:"nil,omitempty"` // arr/obj: nil rather than empty
	Kids []jany   `json:"kids,omitempty"`
	Keys [][]byte `json:"keys,omitempty"`
}

var janyNumbers = []string{"0", "-1", "1.5", "1e100", "-0", "12345678901234567890123", "1e400", "-2.5e+309", "1e-400", "9" + strings.Repeat("0", 320), "", "abc", "1.", "0x10", "NaN", " 1", "1e", "007"}

func genJAny(t *rapid.T, depth int) jany {
	ws := []int{10, 3, 3}
	if depth <= 0 {
		ws = []int{10, 1, 1}
	}
	r := rapid.IntRange(0, ws[0]+ws[1]+ws[2]-1).Draw(t, "jk")
	switch {
	case r < ws[0]:
		switch rapid.IntRange(0, 6).Draw(t, "leaf") {
		case 0:
			return jany{K: "nil"}
		case 1:
			return jany{K: "bool", B: rapid.Bool().Draw(t, "b")}
		case 2:
			return jany{K: "int", I: vh.GenVal(t, vh.T(vh.KInt64), vh.VProfile{}).I}
		case 3:
			return jany{K: "f64", F: vh.GenVal(t, vh.T(vh.KFloat64), vh.VProfile{}).F}
		case 4, 5:
			return jany{K: "str", S: genJString(t)}
		default:
			if rapid.Bool().Draw(t, "numvalid") {
				return jany{K: "num", S: []byte(janyNumbers[rapid.IntRange(0, 9).Draw(t, "num")])}
			}
			return jany{K: "num", S: []byte(janyNumbers[rapid.IntRange(0, len(janyNumbers)-1).Draw(t, "num")])}
		}
	case r < ws[0]+ws[1]:
		n := rapid.IntRange(0, 5).Draw(t, "nkeys")
		o := jany{K: "obj"}
		if n == 0 {
			o.Nil = rapid.Bool().Draw(t, "nilobj")
		}
		seen := map[string]bool{}
		for i := 0; i < n; i++ {
			k := genJString(t)
			if seen[string(k)] {
				continue
			}
			seen[string(k)] = true
			o.Keys = append(o.Keys, k)
			o.Kids = append(o.Kids, genJAny(t, depth-1))
		}
		return o
	default:
		n := rapid.IntRange(0, 5).Draw(t, "nelems")
		a := jany{K: "arr"}
		if n == 0 {
			a.Nil = rapid.Bool().Draw(t, "nilarr")
		}
		for i := 0; i < n; i++ {
			a.Kids = append(a.Kids, genJAny(t, depth-1))
		}
		return a
	}
}

func (n *jany) toGo() any {
	switch n.K {
	case "nil":
		return nil
	case "bool":
		return n.B
	case "int":
		return int(n.I)
	case "f64":
		return math.Float64frombits(n.F)
	case "str":
		return string(n.S)
	case "num":
		return json.Number(n.S)
	case "arr":
		if n.Nil {
			return []any(nil)
		}
		a := make([]any, len(n.Kids))
		for i := range n.Kids {
			a[i] = n.Kids[i].toGo()
		}
		return a
	case "obj":
		if n.Nil {
			return map[string]any(nil)
		}
		m := make(map[string]any, len(n.Kids))
		for i := range n.Kids {
			m[string(n.Keys[i])] = n.Kids[i].toGo()
		}
		return m
	}
	panic("jany kind " + n.K)
}

// janyEqual compares a decoded Go value with the tree; nil and empty
// containers are interchangeable, floats compare by bits.
func janyEqual(n *jany, got any, path string) error {
	switch n.K {
	case "nil":
		if got != nil {
			return fmt.Errorf("%s: want nil, got %T %v", path, got, got)
		}
	case "bool":
		if b, ok := got.(bool); !ok || b != n.B {
			return fmt.Errorf("%s: want %v, got %T %v", path, n.B, got, got)
		}
	case "int":
		if i, ok := got.(int); !ok || int64(i) != n.I {
			return fmt.Errorf("%s: want int %d, got %T %v", path, n.I, got, got)
		}
	case "f64":
		if f, ok := got.(float64); !ok || math.Float64bits(f) != n.F {
			return fmt.Errorf("%s: want float bits %#x, got %T %v", path, n.F, got, got)
		}
	case "str":
		if s, ok := got.(string); !ok || s != string(n.S) {
			return fmt.Errorf("%s: want %q, got %T %q", path, n.S, got, got)
		}
	case "num":
		if s, ok := got.(json.Number); !ok || string(s) != string(n.S) {
			return fmt.Errorf("%s: want json.Number %q, got %T %q", path, n.S, got, got)
		}
	case "arr":
		a, ok := got.([]any)
		if !ok && got != nil {
			return fmt.Errorf("%s: want array, got %T", path, got)
		}
		if len(a) != len(n.Kids) {
			return fmt.Errorf("%s: want %d elements, got %d", path, len(n.Kids), len(a))
		}
		for i := range n.Kids {
			if err := janyEqual(&n.Kids[i], a[i], fmt.Sprintf("%s[%d]", path, i)); err != nil {
				return err
			}
		}
	case "obj":
		m, ok := got.(map[string]any)
		if !ok && got != nil {
			return fmt.Errorf("%s: want object, got %T", path, got)
		}
		if len(m) != len(n.Kids) {
			return fmt.Errorf("%s: want %d members, got %d", path, len(n.Kids), len(m))
		}
		for i := range n.Kids {
			v, ok := m[string(n.Keys[i])]
			if !ok {
				return fmt.Errorf("%s: member %q missing", path, n.Keys[i])
			}
			if err := janyEqual(&n.Kids[i], v, fmt.Sprintf("%s.%q", path, n.Keys[i])); err != nil {
				return err
			}
		}
	}
	return nil
}

var jsonNumberRE = regexp.MustCompile(`^-?(0|[1-9][0-9]*)(\.[0-9]+)?([eE][+-]?[0-9]+)?$`)

func validJSONNumber(s []byte) bool { return jsonNumberRE.Match(s) }

// janyJSON is the expected descriptor rendering; ok=false when the tree holds
// something JSON cannot express (non-finite float, json.Number that is not a number).
func janyJSON(n *jany) (vh.JV, bool) {
	switch n.K {
	case "nil":
		return vh.JV{Kind: "null"}, true
	case "bool":
		return vh.JV{Kind: "bool", B: n.B}, true
	case "int":
		return vh.JV{Kind: "num", Num: strconv.FormatInt(n.I, 10)}, true
	case "f64":
		f := math.Float64frombits(n.F)
		if math.IsNaN(f) || math.IsInf(f, 0) {
			return vh.JV{}, false
		}
		return vh.JV{Kind: "num", Float: &f}, true
	case "str":
		return vh.JV{Kind: "str", Str: vh.JSONStringModel(n.S)}, true
	case "num":
		if !validJSONNumber(n.S) {
			return vh.JV{}, false
		}
		return vh.JV{Kind: "num", Num: string(n.S)}, true
	case "arr":
		a := vh.JV{Kind: "arr"}
		for i := range n.Kids {
			e, ok := janyJSON(&n.Kids[i])
			if !ok {
				return vh.JV{}, false
			}
			a.Elems = append(a.Elems, e)
		}
		return a, true
	default:
		o := vh.JV{Kind: "obj", Unordered: true}
		for i := range n.Kids {
			e, ok := janyJSON(&n.Kids[i])
			if !ok {
				return vh.JV{}, false
			}
			o.Pairs = append(o.Pairs, vh.JPair{K: vh.JSONStringModel(n.Keys[i]), V: e})
		}
		return o, true
	}
}

// walkJAny strictly parses the documented JSON-any encoding: count, then
// len-prefixed entries {1: key (objects only), 2: type, 3: value}.
func walkJAny(data []byte, isObj bool, depth int) (int, error) {
	count, n := binary.Uvarint(data)
	if n <= 0 {
		return 0, fmt.Errorf("bad count")
	}
	off := n
	for i := uint64(0); i < count; i++ {
		l, n := binary.Uvarint(data[off:])
		if n <= 0 || l > uint64(len(data)-off-n) {
			return 0, fmt.Errorf("entry %d: bad length", i)
		}
		off += n
		e := data[off : off+int(l)]
		off += int(l)
		p := 0
		readTag := func() (int, int, error) {
			tg, n := binary.Uvarint(e[p:])
			if n <= 0 {
				return 0, 0, fmt.Errorf("bad tag")
			}
			p += n
			return int(tg >> 3), int(tg & 7), nil
		}
		if isObj {
			idx, wt, err := readTag()
			if err != nil || idx != 1 || wt != vh.WTLength {
				return 0, fmt.Errorf("entry %d: expected key field, got %d/%d", i, idx, wt)
			}
			kl, n := binary.Uvarint(e[p:])
			if n <= 0 || kl > uint64(len(e)-p-n) {
				return 0, fmt.Errorf("entry %d: bad key length", i)
			}
			p += n + int(kl)
		}
		idx, wt, err := readTag()
		if err != nil || idx != 2 || wt != vh.WTVarInt {
			return 0, fmt.Errorf("entry %d: expected type field, got %d/%d", i, idx, wt)
		}
		jt, n := binary.Uvarint(e[p:])
		if n <= 0 {
			return 0, fmt.Errorf("entry %d: bad type", i)
		}
		p += n
		if jt != 0 {
			idx, wt, err := readTag()
			if err != nil || idx != 3 {
				return 0, fmt.Errorf("entry %d: expected value field", i)
			}
			switch jt {
			case 1, 7: // string, number
				vl, n := binary.Uvarint(e[p:])
				if wt != vh.WTLength || n <= 0 || vl > uint64(len(e)-p-n) {
					return 0, fmt.Errorf("entry %d: bad string value", i)
				}
				p += n + int(vl)
			case 2, 4: // int, bool
				_, n := binary.Uvarint(e[p:])
				if wt != vh.WTVarInt || n <= 0 {
					return 0, fmt.Errorf("entry %d: bad varint value", i)
				}
				p += n
			case 3:
				if wt != vh.WT64 || len(e)-p < 8 {
					return 0, fmt.Errorf("entry %d: bad float value", i)
				}
				p += 8
			case 5, 6:
				if wt != vh.WTSlice {
					return 0, fmt.Errorf("entry %d: container wire type %d", i, wt)
				}
				n, err := walkJAny(e[p:], jt == 6, depth+1)
				if err != nil {
					return 0, fmt.Errorf("entry %d: %w", i, err)
				}
				p += n
			default:
				return 0, fmt.Errorf("entry %d: unknown json type %d", i, jt)
			}
		}
		if p != len(e) {
			return 0, fmt.Errorf("entry %d: %d trailing bytes in entry", i, len(e)-p)
		}
	}
	return off, nil
}

type c16Case struct {
	Tree jany   `json:"tree"` // always an obj or arr at the root
	A    int64  `json:"a"`    // neighbours in the struct positions
	B    []byte `json:"b"`
}

type c16WithMap struct {
	A int            `plenc:"1"`
	J map[string]any `plenc:"2"`
	B string         `plenc:"3"`
}
type c16WithArr struct {
	A int    `plenc:"1"`
	J []any  `plenc:"2"`
	B string `plenc:"3"`
}
type c16WithArrPtr struct {
	A int    `plenc:"1"`
	J *[]any `plenc:"2"`
	B string `plenc:"3"`
}
type c16Without struct {
	A int    `plenc:"1"`
	B string `plenc:"3"`
}

func newJSONPlenc() *plenc.Plenc {
	p := vh.NewPlenc(vh.Cfg{})
	p.RegisterCodec(reflect.TypeOf(map[string]any{}), plenccodec.JSONMapCodec{})
	p.RegisterCodec(reflect.TypeOf([]any{}), plenccodec.JSONArrayCodec{})
	return p
}

var c16 = &vh.Prop[c16Case]{
	ID: "C16", Name: "json-any",
	Gen: func(t *rapid.T) c16Case {
		var root jany
		for {
			root = genJAny(t, rapid.IntRange(1, 5).Draw(t, "depth"))
			if root.K == "obj" || root.K == "arr" {
				break
			}
			// wrap a scalar so the root is a container
			if rapid.Bool().Draw(t, "wrap") {
				root = jany{K: "arr", Kids: []jany{root}}
			} else {
				root = jany{K: "obj", Keys: [][]byte{genJString(t)}, Kids: []jany{root}}
			}
			break
		}
		return c16Case{Tree: root, A: rapid.Int64Range(-5, 5).Draw(t, "a"), B: genJString(t)}
	},
	Run: func(c c16Case, x *vh.Ctx) *vh.Failure {
		p := newJSONPlenc()
		isObj := c.Tree.K == "obj"
		x.Label("root:" + c.Tree.K)
		val := c.Tree.toGo()
		empty := len(c.Tree.Kids) == 0
		check := func(pos string, got any) *vh.Failure {
			if err := janyEqual(&c.Tree, got, "$"); err != nil {
				return vh.Fail("C16/roundtrip-"+pos, "%s: %v", pos, err)
			}
			return nil
		}
		// ---- top level, by value and by pointer
		var top []byte
		for _, byPtr := range []bool{false, true} {
			var arg any = val
			if byPtr {
				if isObj {
					m := val.(map[string]any)
					arg = &m
				} else {
					a := val.([]any)
					arg = &a
				}
			}
			data, err := p.Marshal(nil, arg)
			if err != nil {
				return vh.Fail("C16/marshal-error", "%v", err)
			}
			if byPtr && !hasMultiObj(&c.Tree) && !bytes.Equal(data, top) {
				return vh.Fail("C16/by-value-vs-pointer", "encodings differ: % x vs % x", top, data)
			}
			top = data
			if len(data) > 0 {
				if n, err := walkJAny(data, isObj, 0); err != nil || n != len(data) {
					return vh.Fail("C16/output-not-walkable", "top-level encoding % x: consumed %d, %v", data, n, err)
				}
			} else if !empty {
				return vh.Fail("C16/nonempty-encodes-to-nothing", "non-empty container encodes to nothing")
			}
			if isObj {
				var out map[string]any
				if err := p.Unmarshal(data, &out); err != nil {
					return vh.Fail("C16/unmarshal-error", "%v", err)
				}
				if f := check("top", out); f != nil {
					return f
				}
			} else {
				var out []any
				if err := p.Unmarshal(data, &out); err != nil {
					return vh.Fail("C16/unmarshal-error", "%v", err)
				}
				if f := check("top", out); f != nil {
					return f
				}
			}
		}
		// ---- codec laws on the registered codec (C05)
		{
			var codec plenccodec.Codec
			var wptr unsafe.Pointer
			if isObj {
				m, _ := val.(map[string]any)
				codec = plenccodec.JSONMapCodec{}
				wptr = *(*unsafe.Pointer)(unsafe.Pointer(&m))
				if m == nil {
					wptr = nil
				}
			} else {
				a, _ := val.([]any)
				codec = plenccodec.JSONArrayCodec{}
				wptr = unsafe.Pointer(&a)
			}
			if wptr != nil {
				body := codec.Append(nil, wptr, nil)
				if s := codec.Size(wptr, nil); s != len(body) {
					return vh.Fail("C16/size-untagged", "Size %d, appended %d", s, len(body))
				}
				tag := plenccore.AppendTag(nil, codec.WireType(), 300)
				tagged := codec.Append(nil, wptr, tag)
				if s := codec.Size(wptr, tag); s != len(tagged) {
					return vh.Fail("C16/size-tagged", "Size %d, appended %d", s, len(tagged))
				}
			}
		}
		// ---- struct field followed by another field; pointer field; skipped unknown field
		b := string(c.B)
		var data []byte
		var err error
		if isObj {
			m, _ := val.(map[string]any)
			data, err = p.Marshal(nil, &c16WithMap{A: int(c.A), J: m, B: b})
		} else {
			a, _ := val.([]any)
			data, err = p.Marshal(nil, &c16WithArr{A: int(c.A), J: a, B: b})
		}
		if err != nil {
			return vh.Fail("C16/marshal-error", "%v", err)
		}
		if isObj {
			var out c16WithMap
			if err := p.Unmarshal(data, &out); err != nil {
				return vh.Fail("C16/unmarshal-error", "struct field: %v", err)
			}
			if out.A != int(c.A) || out.B != b {
				return vh.Fail("C16/neighbour-fields-desynchronised", "A=%d B=%q, want %d %q (bytes % x)", out.A, out.B, c.A, b, data)
			}
			if f := check("field", out.J); f != nil {
				return f
			}
		} else {
			var out c16WithArr
			if err := p.Unmarshal(data, &out); err != nil {
				return vh.Fail("C16/unmarshal-error", "struct field: %v", err)
			}
			if out.A != int(c.A) || out.B != b {
				return vh.Fail("C16/neighbour-fields-desynchronised", "A=%d B=%q, want %d %q (bytes % x)", out.A, out.B, c.A, b, data)
			}
			if f := check("field", out.J); f != nil {
				return f
			}
			// the same bytes into a struct whose field is a pointer to the array
			var outp c16WithArrPtr
			if err := p.Unmarshal(data, &outp); err != nil {
				return vh.Fail("C16/unmarshal-error-pointer-field", "pointer field: %v", err)
			}
			if outp.A != int(c.A) || outp.B != b {
				return vh.Fail("C16/pointer-field-desynchronised", "pointer field: A=%d B=%q, want %d %q (bytes % x)", outp.A, outp.B, c.A, b, data)
			}
			if !empty {
				if outp.J == nil {
					return vh.Fail("C16/roundtrip-pointer-field", "pointer field nil")
				}
				if f := check("pointer-field", *outp.J); f != nil {
					f.Class = "C16/roundtrip-pointer-field"
					return f
				}
			}
			// and written through the pointer field
			a, _ := val.([]any)
			pdata, err := p.Marshal(nil, &c16WithArrPtr{A: int(c.A), J: &a, B: b})
			if err != nil {
				return vh.Fail("C16/marshal-error", "%v", err)
			}
			var out2 c16WithArr
			if err := p.Unmarshal(pdata, &out2); err != nil || out2.A != int(c.A) || out2.B != b {
				return vh.Fail("C16/pointer-field-write", "written through pointer field, read back A=%d B=%q err=%v", out2.A, out2.B, err)
			}
			if f := check("pointer-field-write", out2.J); f != nil {
				return f
			}
		}
		var without c16Without
		if err := p.Unmarshal(data, &without); err != nil {
			return vh.Fail("C16/skip-error", "skipping the JSON field: %v (bytes % x)", err, data)
		}
		if without.A != int(c.A) || without.B != b {
			return vh.Fail("C16/skip-desynchronised", "after skipping the JSON field: A=%d B=%q, want %d %q", without.A, without.B, c.A, b)
		}
		// ---- descriptor rendering
		want, ok := janyJSON(&c.Tree)
		if ok && len(top) > 0 {
			codec, err := p.CodecForType(reflect.TypeOf(val))
			if err != nil {
				return vh.Fail("C16/codec-error", "%v", err)
			}
			d := codec.Descriptor()
			var out plenccodec.JSONOutput
			if err := d.Read(&out, top); err != nil {
				return vh.Fail("C16/descriptor-read-error", "%v", err)
			}
			doc := out.Done()
			got, err := vh.ParseJSON(doc)
			if err != nil || !json.Valid(doc) {
				return vh.Fail("C16/descriptor-invalid-json", "%v: %q", err, doc)
			}
			if err := vh.MatchJSON(want, got, "$"); err != nil {
				return vh.Fail("C16/descriptor-content-differs", "%v\noutput %q", err, doc)
			}
			x.Label("descriptor-checked")
		} else {
			x.Label("descriptor-skipped:not-expressible-in-json")
		}
		var st janyStats
		janyShape(&c.Tree, 0, &st)
		x.Label(fmt.Sprintf("depth:%d", st.depth))
		if st.depth >= 2 && len(st.kinds) >= 3 {
			x.NonTrivial()
		}
		return nil
	},
}

type janyStats struct {
	depth int
	kinds map[string]bool
}

func janyShape(n *jany, d int, st *janyStats) {
	if st.kinds == nil {
		st.kinds = map[string]bool{}
	}
	st.kinds[n.K] = true
	if d > st.depth {
		st.depth = d
	}
	for i := range n.Kids {
		janyShape(&n.Kids[i], d+1, st)
	}
}

func hasMultiObj(n *jany) bool {
	if n.K == "obj" && len(n.Kids) > 1 {
		return true
	}
	for i := range n.Kids {
		if hasMultiObj(&n.Kids[i]) {
			return true
		}
	}
	return false
}

// ---- totality of decoding for the JSON-any codecs (part of C04)

type c04jCase struct {
	Obj  bool   `json:"obj"`
	Data []byte `json:"data"`
}

var c04JSON = &vh.Prop[c04jCase]{
	ID: "C04", Name: "json-any-mutated",
	Gen: func(t *rapid.T) c04jCase {
		root := genJAny(t, 3)
		if root.K != "obj" && root.K != "arr" {
			root = jany{K: "arr", Kids: []jany{root}}
		}
		p := newJSONPlenc()
		enc, err := p.Marshal(nil, root.toGo())
		if err != nil {
			t.Fatalf("marshal: %v", err)
		}
		c := c04jCase{Obj: root.K == "obj"}
		switch rapid.IntRange(0, 5).Draw(t, "src") {
		case 0:
			cut := 0
			if len(enc) > 0 {
				cut = rapid.IntRange(0, len(enc)).Draw(t, "cut")
			}
			c.Data = enc[:cut]
		case 1:
			c.Data = rapid.SliceOfN(rapid.Byte(), 0, 30).Draw(t, "raw")
		default:
			c.Data = mutate(t, enc)
		}
		return c
	},
	Run: func(c c04jCase, x *vh.Ctx) *vh.Failure {
		p := newJSONPlenc()
		exact := append(make([]byte, 0, len(c.Data)), c.Data...)
		limit := uint64(64<<10) + 1024*uint64(len(c.Data))
		run := func() error {
			if c.Obj {
				var out c16WithMap
				return p.Unmarshal(exact, &out)
			}
			var out c16WithArr
			return p.Unmarshal(exact, &out)
		}
		runTop := func() error {
			if c.Obj {
				var out map[string]any
				return p.Unmarshal(exact, &out)
			}
			var out []any
			return p.Unmarshal(exact, &out)
		}
		for _, fn := range []func() error{run, runTop} {
			a0 := allocBytes()
			err := fn()
			if used := allocBytes() - a0; used > limit {
				if used = exactAlloc(func() { fn() }); used > limit {
					return vh.Fail("C04/alloc-blowup-json", "decoding %d bytes allocated %d", len(c.Data), used)
				}
			}
			x.LabelIf(err == nil, "unmarshal:ok")
		}
		if !bytes.Equal(exact, c.Data) {
			return vh.Fail("C04/input-modified", "input changed")
		}
		var d plenccodec.Descriptor
		if c.Obj {
			d = plenccodec.JSONMapCodec{}.Descriptor()
		} else {
			d = plenccodec.JSONArrayCodec{}.Descriptor()
		}
		var out plenccodec.JSONOutput
		d.Read(&out, exact)
		out.Done()
		if len(c.Data) >= 2 {
			x.NonTrivial()
		}
		return nil
	},
}

func init() { registrars = append(registrars, c16.Register, c04JSON.Register) }

func TestC16(t *testing.T)        { c16.Check(t, vh.N(20000, 200000)) }
func TestC04JSONAny(t *testing.T) { c04JSON.Check(t, vh.N(20000, 100000)) }
