package props

import (
	"fmt"
	"reflect"
	"runtime/debug"
	"testing"
	"time"

	"github.com/philpearl/plenc/plenccodec"
	"pgregory.net/rapid"

	"verifharness/vh"
)

// C14: the Descriptor mirrors the type definition exactly.

type c14Case struct {
	Cfg vh.Cfg    `json:"cfg"`
	T   *vh.TSpec `json:"type"`
}

var fieldTypeNames = map[plenccodec.FieldType]string{
	plenccodec.FieldTypeInt: "Int", plenccodec.FieldTypeUint: "Uint", plenccodec.FieldTypeFloat32: "Float32", plenccodec.FieldTypeFloat64: "Float64",
	plenccodec.FieldTypeString: "String", plenccodec.FieldTypeSlice: "Slice", plenccodec.FieldTypeStruct: "Struct", plenccodec.FieldTypeBool: "Bool",
	plenccodec.FieldTypeTime: "Time", plenccodec.FieldTypeJSONObject: "JSONObject", plenccodec.FieldTypeJSONArray: "JSONArray", plenccodec.FieldTypeFlatInt: "FlatInt",
}

var logicalTypeNames = map[plenccodec.LogicalType]string{
	plenccodec.LogicalTypeNone: "", plenccodec.LogicalTypeTimestamp: "Timestamp", plenccodec.LogicalTypeDate: "Date", plenccodec.LogicalTypeTime: "Time",
	plenccodec.LogicalTypeMap: "Map", plenccodec.LogicalTypeMapEntry: "MapEntry",
}

func compareDescriptor(want vh.XDesc, got *plenccodec.Descriptor, path string) *vh.Failure {
	bad := func(what string, w, g any) *vh.Failure {
		return vh.Fail("C14/descriptor-"+what, "%s: %s is %v, the type definition implies %v", path, what, g, w)
	}
	if got.Index != want.Index {
		return bad("index", want.Index, got.Index)
	}
	if got.Name != want.Name {
		return bad("name", want.Name, got.Name)
	}
	if fieldTypeNames[got.Type] != want.Type {
		return bad("type", want.Type, fieldTypeNames[got.Type])
	}
	if !want.AnyTypeName && got.TypeName != want.TypeName {
		return bad("typename", want.TypeName, got.TypeName)
	}
	if got.ExplicitPresence != want.ExplicitPresence {
		return bad("presence", want.ExplicitPresence, got.ExplicitPresence)
	}
	if logicalTypeNames[got.LogicalType] != want.LogicalType {
		return bad("logicaltype", want.LogicalType, logicalTypeNames[got.LogicalType])
	}
	if len(got.Elements) != len(want.Elements) {
		return vh.Fail("C14/descriptor-elements", "%s: %d elements, the type definition implies %d", path, len(got.Elements), len(want.Elements))
	}
	for i := range want.Elements {
		if f := compareDescriptor(want.Elements[i], &got.Elements[i], fmt.Sprintf("%s/%d:%s", path, want.Elements[i].Index, want.Elements[i].Name)); f != nil {
			return f
		}
	}
	return nil
}

func hasJSONDash(t *vh.TSpec) bool {
	return t.Has(func(x *vh.TSpec) bool {
		if x.Kind != vh.KStruct {
			return false
		}
		for _, f := range x.Fields {
			if f.JSON == "-" {
				return true
			}
		}
		return false
	})
}

const findingDescriptorRecursive = "F10-descriptor-recursive"

var c14 = &vh.Prop[c14Case]{
	ID: "C14", Name: "descriptor-mirrors-type",
	Gen: func(t *rapid.T) c14Case {
		cfg := vh.AllCfgs[rapid.IntRange(0, 3).Draw(t, "cfg")]
		p := acceptedProfile(cfg)
		p.MaxFields = 8
		return c14Case{Cfg: cfg, T: vh.GenType(t, p)}
	},
	Run: func(c c14Case, x *vh.Ctx) *vh.Failure {
		for _, l := range vh.ShapeLabels(c.T) {
			x.Label(l)
		}
		if c.T.IsRecursive() {
			// Descriptor() of a recursive type does not return (open finding); excluded by construction
			x.Label("excluded:recursive")
			x.Exclude(findingDescriptorRecursive)
			return nil
		}
		p := vh.NewPlenc(c.Cfg)
		codec, err := p.CodecForType(c.T.Build())
		if err != nil {
			return vh.Fail("C14/codec-error", "%v", err)
		}
		got := codec.Descriptor()
		want := vh.ExpectedDescriptor(c.T, "")
		if f := compareDescriptor(want, &got, "T"); f != nil {
			return f
		}
		// non-trivial: >= 3 encoded fields of >= 2 distinct descriptor types
		kinds := map[string]bool{}
		n := 0
		var count func(d vh.XDesc)
		count = func(d vh.XDesc) {
			for _, e := range d.Elements {
				if d.Type == "Struct" {
					n++
					kinds[e.Type] = true
				}
				count(e)
			}
		}
		count(want)
		if n >= 3 && len(kinds) >= 2 {
			x.NonTrivial()
		}
		return nil
	},
}

// c14Rec is the replay vehicle of the open finding F10: Descriptor() of a
// recursive type recurses without bound (the process dies of stack overflow).
var c14Rec = &vh.Prop[c14Case]{
	ID: "C14", Name: "descriptor-of-recursive-type",
	Run: func(c c14Case, x *vh.Ctx) *vh.Failure {
		debug.SetMaxStack(64 << 20) // die quickly instead of growing the stack to 1 GiB
		p := vh.NewPlenc(c.Cfg)
		codec, err := p.CodecForType(c.T.Build())
		if err != nil {
			return vh.Fail("C14/codec-error", "%v", err)
		}
		d := codec.Descriptor()
		_ = d
		return nil
	},
}

// Exported codecs registered on an instance: JSON-any codecs and the BigQuery timestamp codec.
type c14JSONStruct struct {
	A int            `plenc:"1"`
	M map[string]any `plenc:"2" json:"obj"`
	L []any          `plenc:"3"`
	T time.Time      `plenc:"4"`
	P *time.Time     `plenc:"5" json:"when,omitempty"`
	S []time.Time    `plenc:"6"`
}

type c14xCase struct {
	BQ bool `json:"bq"`
}

var c14x = &vh.Prop[c14xCase]{
	ID: "C14", Name: "registered-exported-codecs",
	Run: func(c c14xCase, x *vh.Ctx) *vh.Failure {
		p := newJSONPlenc()
		timeType, timeLogical := "Time", "Timestamp"
		if c.BQ {
			p.RegisterCodec(reflect.TypeOf(time.Time{}), plenccodec.BQTimestampCodec{})
			timeType = "FlatInt"
		}
		codec, err := p.CodecForType(reflect.TypeOf(c14JSONStruct{}))
		if err != nil {
			return vh.Fail("C14/codec-error", "%v", err)
		}
		got := codec.Descriptor()
		tm := func(idx int, name string, presence bool) vh.XDesc {
			return vh.XDesc{Index: idx, Name: name, Type: timeType, LogicalType: timeLogical, ExplicitPresence: presence}
		}
		want := vh.XDesc{Type: "Struct", TypeName: "c14JSONStruct", Elements: []vh.XDesc{
			{Index: 1, Name: "A", Type: "Int"},
			{Index: 2, Name: "obj", Type: "JSONObject"},
			{Index: 3, Name: "L", Type: "JSONArray"},
			tm(4, "T", false), tm(5, "when", true),
			{Index: 6, Name: "S", Type: "Slice", Elements: []vh.XDesc{tm(0, "", false)}},
		}}
		x.NonTrivial()
		return compareDescriptor(want, &got, "T")
	},
}

func TestC14Exported(t *testing.T) {
	st := c14x.Stats()
	for _, bq := range []bool{false, true} {
		c := c14xCase{BQ: bq}
		if f := c14x.Try(c); f != nil {
			t.Fatalf("C14/registered-exported-codecs %s", f.Error())
		}
		st.Record([]byte(fmt.Sprint(bq)), true, []string{fmt.Sprintf("bq:%v", bq)}, func() any { return c })
	}
}

func init() { registrars = append(registrars, c14.Register, c14Rec.Register, c14x.Register) }

func TestC14(t *testing.T) { c14.Check(t, vh.N(30000, 40000)) }
