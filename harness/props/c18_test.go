package props

import (
	"bytes"
	"encoding/binary"
	"fmt"
	"math/big"
	"math/bits"
	"os"
	"strconv"
	"testing"

	"github.com/philpearl/plenc/plenccore"
	"pgregory.net/rapid"

	"verifharness/vh"
)

// C18: varint, zig-zag, tag and skip primitives.

func refSizeUvarint(v uint64) int {
	n := (bits.Len64(v) + 6) / 7
	if n == 0 {
		n = 1
	}
	return n
}

// checkUint checks every varint law for one value.
func checkUint(v uint64) *vh.Failure {
	want := binary.AppendUvarint(nil, v)
	got := plenccore.AppendVarUint(nil, v)
	if !bytes.Equal(got, want) {
		return vh.Fail("C18/varuint-append", "AppendVarUint(%d) = % x, standard varint % x", v, got, want)
	}
	if s := plenccore.SizeVarUint(v); s != len(want) || s != refSizeUvarint(v) {
		return vh.Fail("C18/varuint-size", "SizeVarUint(%d) = %d, encoded length %d", v, s, len(want))
	}
	// appends to an existing prefix without disturbing it
	pre := []byte{0xAA, 0x80}
	if g2 := plenccore.AppendVarUint(pre, v); !bytes.Equal(g2[:2], pre[:2]) || !bytes.Equal(g2[2:], want) {
		return vh.Fail("C18/varuint-append", "AppendVarUint with prefix: % x", g2)
	}
	for _, tail := range [][]byte{nil, {0x00}, {0xff, 0xff}} {
		buf := append(append([]byte{}, want...), tail...)
		r, n := plenccore.ReadVarUint(buf)
		if r != v || n != len(want) {
			return vh.Fail("C18/varuint-read", "ReadVarUint(% x) = (%d,%d), want (%d,%d)", buf, r, n, v, len(want))
		}
		sn, err := plenccore.Skip(buf, plenccore.WTVarInt)
		if err != nil || sn != len(want) {
			return vh.Fail("C18/skip-varint", "Skip(% x, WTVarInt) = (%d,%v), want %d", buf, sn, err, len(want))
		}
	}
	// strict prefixes are truncated varints: reads must not claim success beyond the data
	for cut := 0; cut < len(want); cut++ {
		_, n := plenccore.ReadVarUint(want[:cut])
		if n > cut {
			return vh.Fail("C18/varuint-read-overrun", "ReadVarUint(% x) consumed %d of %d bytes", want[:cut], n, cut)
		}
		if cut > 0 || true {
			if sn, err := plenccore.Skip(want[:cut], plenccore.WTVarInt); err == nil {
				return vh.Fail("C18/skip-truncated", "Skip of truncated varint % x returned (%d, nil)", want[:cut], sn)
			}
		}
	}
	// zig-zag as a bijection
	i := plenccore.ZagZig(v)
	if back := plenccore.ZigZag(i); back != v {
		return vh.Fail("C18/zigzag", "ZigZag(ZagZig(%d)) = %d", v, back)
	}
	wantI := int64(v>>1) ^ -int64(v&1)
	if i != wantI {
		return vh.Fail("C18/zigzag", "ZagZig(%d) = %d, protobuf says %d", v, i, wantI)
	}
	return nil
}

func checkInt(x int64) *vh.Failure {
	z := plenccore.ZigZag(x)
	wantZ := uint64(x<<1) ^ uint64(x>>63)
	if z != wantZ {
		return vh.Fail("C18/zigzag", "ZigZag(%d) = %d, protobuf says %d", x, z, wantZ)
	}
	if back := plenccore.ZagZig(z); back != x {
		return vh.Fail("C18/zigzag", "ZagZig(ZigZag(%d)) = %d", x, back)
	}
	enc := plenccore.AppendVarInt(nil, x)
	if !bytes.Equal(enc, binary.AppendUvarint(nil, wantZ)) {
		return vh.Fail("C18/varint-append", "AppendVarInt(%d) = % x", x, enc)
	}
	s := plenccore.SizeVarInt(x)
	if s != len(enc) {
		return vh.Fail("C18/varint-size", "SizeVarInt(%d) = %d, encoded %d", x, s, len(enc))
	}
	// magnitudes below 2^(7k-1) take k bytes: -2^(7k-1) <= x < 2^(7k-1)  <=>  size <= k
	for k := 1; k <= 9; k++ {
		lim := int64(1) << (7*k - 1)
		in := x >= -lim && x < lim
		if in != (s <= k) {
			return vh.Fail("C18/zigzag-size-law", "x=%d size=%d k=%d in-range=%v", x, s, k, in)
		}
	}
	r, n := plenccore.ReadVarInt(append(enc, 0x01))
	if r != x || n != len(enc) {
		return vh.Fail("C18/varint-read", "ReadVarInt(% x) = (%d,%d) want (%d,%d)", enc, r, n, x, len(enc))
	}
	return nil
}

func checkTag(wt plenccore.WireType, index int) *vh.Failure {
	enc := plenccore.AppendTag(nil, wt, index)
	want := binary.AppendUvarint(nil, uint64(index)<<3|uint64(wt))
	if !bytes.Equal(enc, want) {
		return vh.Fail("C18/tag-append", "AppendTag(%d,%d) = % x, want % x", wt, index, enc, want)
	}
	if s := plenccore.SizeTag(wt, index); s != len(enc) {
		return vh.Fail("C18/tag-size", "SizeTag(%d,%d) = %d, encoded %d", wt, index, s, len(enc))
	}
	gwt, gi, n := plenccore.ReadTag(append(enc, 0x7f))
	if gwt != wt || gi != index || n != len(enc) {
		return vh.Fail("C18/tag-read", "ReadTag(% x) = (%d,%d,%d), want (%d,%d,%d)", enc, gwt, gi, n, wt, index, len(enc))
	}
	return nil
}

// enumeration cases routed through Props so that failures are replayable
type c18Enum struct {
	Kind string `json:"kind"` // uint | int | tag | skip
	U    uint64 `json:"u,omitempty"`
	I    int64  `json:"i,omitempty"`
	WT   int    `json:"wt,omitempty"`
	X    int    `json:"index,omitempty"`
	Data []byte `json:"data,omitempty"`
}

var c18EnumProp = &vh.Prop[c18Enum]{
	ID: "C18", Name: "enumerated",
	Run: func(c c18Enum, x *vh.Ctx) *vh.Failure {
		switch c.Kind {
		case "uint":
			return checkUint(c.U)
		case "int":
			return checkInt(c.I)
		case "tag":
			return checkTag(plenccore.WireType(c.WT), c.X)
		case "skip":
			return checkSkipAny(c.Data, plenccore.WireType(c.WT))
		}
		return vh.Fail("harness/bad-case", "kind %q", c.Kind)
	},
}

var wireTypes = []plenccore.WireType{plenccore.WTVarInt, plenccore.WT64, plenccore.WTLength, plenccore.WTSlice, 4, plenccore.WT32}

func u64Boundaries() []uint64 {
	seen := map[uint64]bool{}
	var out []uint64
	add := func(v uint64) {
		if !seen[v] {
			seen[v] = true
			out = append(out, v)
		}
	}
	for k := 0; k < 64; k++ {
		b := uint64(1) << k
		for d := uint64(0); d <= 2; d++ {
			add(b + d)
			add(b - d)
		}
	}
	for d := uint64(0); d <= 3; d++ {
		add(d)
		add(^uint64(0) - d)
	}
	return out
}

func TestC18Boundaries(t *testing.T) {
	st := vh.NewStats("C18", "boundaries")
	rec := func(c c18Enum, nontrivial bool) {
		if f := c18EnumProp.Try(c); f != nil {
			t.Fatalf("C18/enumerated %s", f.Error())
		}
		st.Record([]byte(fmt.Sprintf("%s:%d:%d", c.Kind, c.U, c.I)), nontrivial, []string{c.Kind}, func() any { return c })
	}
	bs := u64Boundaries()
	for _, v := range bs {
		rec(c18Enum{Kind: "uint", U: v}, v >= 128)
		rec(c18Enum{Kind: "int", I: int64(v)}, v >= 64)
		rec(c18Enum{Kind: "int", I: -int64(v)}, v >= 64)
	}
	st.SetExhaustive("bit-length-boundaries", map[string]any{"exhaustive": true, "values": len(bs), "what": "every 2^k, 2^k±1, 2^k±2 (k=0..63), 0..3, MaxUint64-3..MaxUint64, as uint64, int64 and negated"})
	// tags: all wire types x indexes 0..4096, then boundaries up to 2^28
	n := 0
	for _, wt := range wireTypes {
		for idx := 0; idx <= 4096; idx++ {
			if f := c18EnumProp.Try(c18Enum{Kind: "tag", WT: int(wt), X: idx}); f != nil {
				t.Fatalf("C18/enumerated %s", f.Error())
			}
			n++
		}
		for k := 12; k <= 28; k++ {
			for _, idx := range []int{1<<k - 1, 1 << k, 1<<k + 1} {
				if idx > 1<<28 {
					continue
				}
				if f := c18EnumProp.Try(c18Enum{Kind: "tag", WT: int(wt), X: idx}); f != nil {
					t.Fatalf("C18/enumerated %s", f.Error())
				}
				st.Record([]byte(fmt.Sprintf("tag:%d:%d", wt, idx)), true, []string{"tag"}, func() any { return map[string]any{"wt": int(wt), "index": idx} })
			}
		}
	}
	st.AddEnumerated(int64(n), int64(n)-6*16) // multi-byte tags are the non-trivial ones
	st.AddSample(map[string]any{"tags": "all wire types 0..5 x indexes 0..4096"})
	st.SetExhaustive("tags", map[string]any{"exhaustive": true, "wire_types": 6, "indexes": "0..4096"})
}

type c18Case struct {
	U uint64 `json:"u"`
	I int64  `json:"i"`
	W int    `json:"wt"`
	X int    `json:"index"`
}

var c18Rand = &vh.Prop[c18Case]{
	ID: "C18", Name: "random-64bit",
	Gen: func(t *rapid.T) c18Case {
		return c18Case{
			U: rapid.Uint64().Draw(t, "u"), I: rapid.Int64().Draw(t, "i"),
			W: rapid.IntRange(0, 5).Draw(t, "wt"), X: rapid.IntRange(0, 1<<28).Draw(t, "idx"),
		}
	},
	Run: func(c c18Case, x *vh.Ctx) *vh.Failure {
		if f := checkUint(c.U); f != nil {
			return f
		}
		if f := checkInt(c.I); f != nil {
			return f
		}
		if f := checkTag(plenccore.WireType(c.W), c.X); f != nil {
			return f
		}
		x.Label(fmt.Sprintf("uvarint-bytes:%d", refSizeUvarint(c.U)))
		if c.U >= 128 {
			x.NonTrivial()
		}
		return nil
	},
}

// Skip ----------------------------------------------------------------------

type c18SkipCase struct {
	WT     int    `json:"wt"`
	Field  []byte `json:"field"` // a well-formed field payload of that wire type
	Tail   []byte `json:"tail"`
	Random []byte `json:"random"` // arbitrary bytes for the totality half
}

// lenVarint encodes a length / count, one time in five with a padded
// (non-minimal but valid) varint such as 83 00 for 3.
func lenVarint(t *rapid.T, b []byte, v uint64) []byte {
	if rapid.IntRange(0, 4).Draw(t, "padded") != 0 {
		return binary.AppendUvarint(b, v)
	}
	enc := binary.AppendUvarint(nil, v)
	if len(enc) >= 9 {
		return append(b, enc...)
	}
	enc[len(enc)-1] |= 0x80
	pad := rapid.IntRange(1, 2).Draw(t, "pad")
	for i := 1; i < pad; i++ {
		enc = append(enc, 0x80)
	}
	enc = append(enc, 0x00)
	return append(b, enc...)
}

func genWellFormed(t *rapid.T, wt int) []byte {
	switch wt {
	case vh.WTVarInt:
		return binary.AppendUvarint(nil, rapid.Uint64().Draw(t, "v"))
	case vh.WT64:
		return rapid.SliceOfN(rapid.Byte(), 8, 8).Draw(t, "f64")
	case vh.WT32:
		return rapid.SliceOfN(rapid.Byte(), 4, 4).Draw(t, "f32")
	case vh.WTLength:
		n := pickInt(t, "len", []int{0, 1, 2, 5, 127, 128, 129, 300})
		b := lenVarint(t, nil, uint64(n))
		return append(b, rapid.SliceOfN(rapid.Byte(), n, n).Draw(t, "body")...)
	default: // WTSlice
		cnt := pickInt(t, "count", []int{0, 1, 2, 3, 5, 127, 128, 129, 300})
		b := lenVarint(t, nil, uint64(cnt))
		for i := 0; i < cnt; i++ {
			lens := []int{0, 1, 3, 127, 128}
			if cnt > 5 {
				lens = []int{0, 1, 2}
			}
			n := pickInt(t, "elen", lens)
			b = lenVarint(t, b, uint64(n))
			b = append(b, rapid.SliceOfN(rapid.Byte(), n, n).Draw(t, "ebody")...)
		}
		return b
	}
}

// genSkipRandom: arbitrary bytes, half of the time starting with a boundary
// varint (huge / over-long lengths and counts) optionally followed by a second one.
func genSkipRandom(t *rapid.T) []byte {
	if rapid.Bool().Draw(t, "plain") {
		return rapid.SliceOfN(rapid.Byte(), 0, 24).Draw(t, "random")
	}
	b := append([]byte{}, hostileVarints[rapid.IntRange(0, len(hostileVarints)-1).Draw(t, "hv1")]...)
	if rapid.Bool().Draw(t, "second") {
		b = append(b, hostileVarints[rapid.IntRange(0, len(hostileVarints)-1).Draw(t, "hv2")]...)
	}
	return append(b, rapid.SliceOfN(rapid.Byte(), 0, 12).Draw(t, "tail2")...)
}

func pickInt(t *rapid.T, label string, xs []int) int {
	return xs[rapid.IntRange(0, len(xs)-1).Draw(t, label)]
}

// checkSkipAny: any input: no panic (Guard), and success implies 0 <= n <= len.
func checkSkipAny(data []byte, wt plenccore.WireType) *vh.Failure {
	n, err := plenccore.Skip(data, wt)
	if err == nil && (n < 0 || n > len(data)) {
		return vh.Fail("C18/skip-overrun", "Skip(% x, wt=%d) = (%d, nil) but only %d bytes of input", data, wt, n, len(data))
	}
	return nil
}

func checkReadVarUintAny(data []byte) *vh.Failure {
	v, n := plenccore.ReadVarUint(data)
	// independent reading with big integers
	val := new(big.Int)
	end := -1
	for i, b := range data {
		val.Or(val, new(big.Int).Lsh(big.NewInt(int64(b&0x7f)), uint(7*i)))
		if b&0x80 == 0 {
			end = i + 1
			break
		}
	}
	switch {
	case end < 0: // never terminates within the input
		if n > 0 {
			return vh.Fail("C18/readvaruint-disagrees", "ReadVarUint(% x) = (%d, %d) although the varint does not end within the input", data, v, n)
		}
	case val.BitLen() > 64 || end > 10:
		if n > 0 {
			return vh.Fail("C18/readvaruint-disagrees", "ReadVarUint(% x) = (%d, %d) although the encoded number %s does not fit in 64 bits", data, v, n, val)
		}
	default:
		if n != end || v != val.Uint64() {
			return vh.Fail("C18/readvaruint-disagrees", "ReadVarUint(% x) = (%d, %d), the bytes encode %s in %d bytes", data, v, n, val, end)
		}
	}
	return nil
}

var c18Skip = &vh.Prop[c18SkipCase]{
	ID: "C18", Name: "skip",
	Gen: func(t *rapid.T) c18SkipCase {
		wt := []int{vh.WTVarInt, vh.WT64, vh.WTLength, vh.WTSlice, vh.WT32}[rapid.IntRange(0, 4).Draw(t, "wt")]
		return c18SkipCase{
			WT: wt, Field: genWellFormed(t, wt),
			Tail:   rapid.SliceOfN(rapid.Byte(), 0, 6).Draw(t, "tail"),
			Random: genSkipRandom(t),
		}
	},
	Run: func(c c18SkipCase, x *vh.Ctx) *vh.Failure {
		wt := plenccore.WireType(c.WT)
		x.Label(fmt.Sprintf("wt:%d", c.WT))
		buf := append(append([]byte{}, c.Field...), c.Tail...)
		n, err := plenccore.Skip(buf, wt)
		if err != nil || n != len(c.Field) {
			return vh.Fail("C18/skip-wellformed", "Skip(% x, wt=%d) = (%d,%v), the field is %d bytes", buf, c.WT, n, err, len(c.Field))
		}
		// every strict prefix cuts the field short: must be an error
		for cut := 0; cut < len(c.Field); cut++ {
			n, err := plenccore.Skip(c.Field[:cut:cut], wt)
			if err == nil {
				return vh.Fail("C18/skip-truncated", "Skip of a field truncated to %d of %d bytes (% x, wt=%d) returned (%d, nil)", cut, len(c.Field), c.Field[:cut], c.WT, n)
			}
		}
		for w := 0; w <= 7; w++ {
			if f := checkSkipAny(c.Random, plenccore.WireType(w)); f != nil {
				return f
			}
		}
		// ReadVarUint on arbitrary bytes against an arbitrary-precision reading of the same bytes: a varint
		// that does not fit in 64 bits (or does not end) is not a value; one that fits is that value, padded or not
		if f := checkReadVarUintAny(c.Random); f != nil {
			return f
		}
		if len(c.Random) >= 2 {
			ten := append(bytes.Repeat([]byte{c.Random[0] | 0x80}, 9), c.Random[1]&0x7f) // ten bytes, the last one arbitrary
			if f := checkReadVarUintAny(ten); f != nil {
				return f
			}
		}
		if c.WT != vh.WTVarInt || len(c.Field) > 1 {
			x.NonTrivial()
		}
		return nil
	},
}

func init() {
	registrars = append(registrars, c18Rand.Register, c18Skip.Register, c18EnumProp.Register)
}

func TestC18Random(t *testing.T) { c18Rand.Check(t, vh.N(200000, 2000000)) }
func TestC18Skip(t *testing.T)   { c18Skip.Check(t, vh.N(30000, 400000)) }

// TestC18SkipExhaustive: every byte string of length <= 3 (quick: <= 2 plus a
// 16-symbol alphabet at length 3..4) for every wire type 0..7.
func TestC18SkipExhaustive(t *testing.T) {
	st := vh.NewStats("C18", "skip-exhaustive")
	maxFull := 2
	if vh.Thorough() {
		maxFull = 3
	}
	var count int64
	var buf [4]byte
	var rec func(depth, n int)
	rec = func(depth, n int) {
		if depth == n {
			data := buf[:n:n]
			for w := 0; w <= 7; w++ {
				if f := c18EnumProp.Try(c18Enum{Kind: "skip", WT: w, Data: data}); f != nil {
					t.Fatalf("C18/enumerated %s", f.Error())
				}
				count++
			}
			return
		}
		for b := 0; b < 256; b++ {
			buf[depth] = byte(b)
			rec(depth+1, n)
		}
	}
	for n := 0; n <= maxFull; n++ {
		rec(0, n)
	}
	st.AddEnumerated(count, count-8) // everything but the empty string
	st.AddSample(map[string]any{"data": "every byte string up to the length below", "wire_types": "0..7"})
	st.SetExhaustive("skip-short-strings", map[string]any{"exhaustive": true, "max_len": maxFull, "alphabet": 256, "wire_types": "0..7", "calls": count})
}

// TestC18All32 (thorough): every 32-bit value as uint64 and, zig-zag-wise, as
// int32, sharded over VERIF_SHARDS processes.
func TestC18All32(t *testing.T) {
	if !vh.Thorough() {
		t.Skip("thorough tier only")
	}
	shard, _ := strconv.Atoi(os.Getenv("VERIF_SHARD"))
	shards, _ := strconv.Atoi(os.Getenv("VERIF_SHARDS"))
	if shards <= 0 {
		shards = 1
	}
	st := vh.NewStats("C18", "all-32bit")
	lo := uint64(1<<32) / uint64(shards) * uint64(shard)
	hi := uint64(1<<32) / uint64(shards) * uint64(shard+1)
	if shard == shards-1 {
		hi = 1 << 32
	}
	var scratch [16]byte
	for v := lo; v < hi; v++ {
		// fast path: the core laws without allocation; full check on a stride
		got := plenccore.AppendVarUint(scratch[:0], v)
		want := binary.AppendUvarint(scratch[8:8], v)
		if !bytes.Equal(got, want) || plenccore.SizeVarUint(v) != len(want) {
			c18EnumProp.Try(c18Enum{Kind: "uint", U: v})
			t.Fatalf("C18/all-32bit: value %d fails the varint laws", v)
		}
		r, n := plenccore.ReadVarUint(got)
		x := int64(int32(uint32(v)))
		z := plenccore.ZigZag(x)
		if r != v || n != len(got) || plenccore.ZagZig(z) != x || z != uint64(x<<1)^uint64(x>>63) || plenccore.SizeVarInt(x) != refSizeUvarint(z) {
			if f := c18EnumProp.Try(c18Enum{Kind: "uint", U: v}); f == nil {
				c18EnumProp.Try(c18Enum{Kind: "int", I: x})
			}
			t.Fatalf("C18/all-32bit: value %d fails the varint / zig-zag laws", v)
		}
		if v&0xFFFF == 0 {
			if f := c18EnumProp.Try(c18Enum{Kind: "uint", U: v}); f != nil {
				t.Fatalf("C18/all-32bit %s", f.Error())
			}
			if f := c18EnumProp.Try(c18Enum{Kind: "int", I: x}); f != nil {
				t.Fatalf("C18/all-32bit %s", f.Error())
			}
		}
	}
	nt := int64(hi - lo)
	if lo < 128 {
		nt -= 128 - int64(lo)
	}
	st.AddEnumerated(int64(hi-lo), nt)
	st.AddSample(map[string]any{"range": []uint64{lo, hi}})
	st.SetExhaustive(fmt.Sprintf("uint32-range-shard-%d", shard), map[string]any{"exhaustive": true, "from": lo, "to_exclusive": hi})
}
