package props

import (
	"testing"

	"verifharness/vh"
)

// Native (coverage-guided) fuzz targets, thorough tier only. The bytes are
// decoded into structured arguments: a selector picks the target type from the
// C04 catalog, the rest is the input. The semantic oracle (c04Run) sits inside
// the target; a failure is also written as a regular replay file.

func FuzzC04(f *testing.F) {
	types := c04Fixed()
	for _, hv := range hostileVarints {
		f.Add(uint8(8), false, hv)
		f.Add(uint8(14), true, append([]byte{0x0a}, hv...))
	}
	for i, ts := range types {
		v := c07FixedVal(ts)
		f.Add(uint8(i), false, vh.RefEncode(ts, v, vh.Cfg{}))
	}
	f.Fuzz(func(t *testing.T, sel uint8, proto bool, data []byte) {
		if len(data) > 4096 {
			return
		}
		ts := types[int(sel)%len(types)]
		cfg := vh.Cfg{}
		if proto && ts.Under().Kind == vh.KStruct {
			cfg = bothOn
		}
		c := c04Case{Cfg: cfg, T: ts, Data: data, Src: "fuzz"}
		if fl := c04Mut.Try(c); fl != nil {
			t.Fatalf("C04/fuzz %s", fl.Error())
		}
	})
}

func FuzzC18Skip(f *testing.F) {
	for _, hv := range hostileVarints {
		f.Add(uint8(2), hv)
		f.Add(uint8(3), hv)
	}
	f.Fuzz(func(t *testing.T, wt uint8, data []byte) {
		if fl := c18EnumProp.Try(c18Enum{Kind: "skip", WT: int(wt % 8), Data: data}); fl != nil {
			t.Fatalf("C18/fuzz %s", fl.Error())
		}
	})
}

// FuzzC15 decodes the bytes into a call tree for the JSON outputter.
func FuzzC15(f *testing.F) {
	f.Add([]byte{0, 1, 2, 3, 4, 5, 6, 7, 8, 9, 10, 11, 12})
	f.Add([]byte("\x08\x02a\x00\x09\x01\x04\x03\"\\\n"))
	f.Fuzz(func(t *testing.T, data []byte) {
		if len(data) > 512 {
			return
		}
		pos := 0
		next := func() byte {
			if pos >= len(data) {
				return 0
			}
			b := data[pos]
			pos++
			return b
		}
		var build func(depth int) jnode
		build = func(depth int) jnode {
			k := next() % 10
			if depth > 6 && k >= 8 {
				k = 4
			}
			switch k {
			case 0:
				return jnode{K: "int", I: int64(int8(next())) << (next() % 57)}
			case 1:
				return jnode{K: "uint", U: uint64(next()) << (next() % 57)}
			case 2:
				return jnode{K: "f64", F: uint64(next())<<52 | uint64(next())<<44 | uint64(next())}
			case 3:
				return jnode{K: "bool", B: next()&1 == 1}
			case 4, 5:
				n := int(next() % 8)
				s := make([]byte, n)
				for i := range s {
					s[i] = next()
				}
				return jnode{K: "str", S: s}
			case 6:
				return jnode{K: "raw", Raw: rawNumbers[int(next())%len(rawNumbers)]}
			case 7:
				return jnode{K: "time", T: &vh.TimeVal{Sec: int64(next())<<24 + 86400*400, Nsec: int32(next()) * 3906250 % 1000000000}}
			case 8:
				n := int(next() % 4)
				o := jnode{K: "obj"}
				for i := 0; i < n; i++ {
					kl := int(next() % 4)
					key := make([]byte, kl)
					for j := range key {
						key[j] = next()
					}
					o.Keys = append(o.Keys, key)
					o.Kids = append(o.Kids, build(depth+1))
				}
				return o
			default:
				n := int(next() % 4)
				a := jnode{K: "arr"}
				for i := 0; i < n; i++ {
					a.Kids = append(a.Kids, build(depth+1))
				}
				return a
			}
		}
		tree := build(0)
		// finite floats only
		var fix func(n *jnode)
		fix = func(n *jnode) {
			if n.K == "f64" && (n.F>>52)&0x7ff == 0x7ff {
				n.F &^= 1 << 62
			}
			for i := range n.Kids {
				fix(&n.Kids[i])
			}
		}
		fix(&tree)
		if fl := c15.Try(c15Case{Docs: []c15Doc{{Tree: tree}}}); fl != nil {
			t.Fatalf("C15/fuzz %s", fl.Error())
		}
	})
}
