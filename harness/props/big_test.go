package props

import (
	"bytes"
	"fmt"
	"testing"

	"pgregory.net/rapid"

	"verifharness/vh"
)

// Large sizes: lengths and counts at the 2- and 3-byte varint boundaries
// (2^14, 2^21) for strings, byte slices, packed and counted slices, maps and
// struct bodies, and deep / wide types. The ordinary generators reach 2^7 and
// only rarely 2^14; these cases are few but each is at a boundary.

type bigCase struct {
	Cfg    vh.Cfg `json:"cfg"`
	Shape  int    `json:"shape"`  // which container carries the size
	Size   int    `json:"size"`   // the boundary length / count
	Nested int    `json:"nested"` // 0..2 wrapping levels (so enclosing length prefixes are exercised)
	Fill   byte   `json:"fill"`
}

var bigSizes = []int{16382, 16383, 16384, 16385, 20000, 65535, 65536, 65537, 100000, 1<<21 - 1, 1 << 21, 1<<21 + 1}

func bigTypeAndValue(c bigCase) (*vh.TSpec, vh.Val) {
	var inner *vh.TSpec
	var iv vh.Val
	n := c.Size
	switch c.Shape {
	case 0: // string of n bytes
		inner, iv = vh.T(vh.KString), vh.Val{S: bytes.Repeat([]byte{c.Fill | 1}, n)}
	case 1: // []byte
		inner, iv = vh.T(vh.KBytes), vh.Val{S: bytes.Repeat([]byte{c.Fill}, n)}
	case 2: // packed []uint8-sized varints: n elements of one byte each -> body of n bytes
		inner = vh.SliceOf(vh.T(vh.KInt8))
		l := make([]vh.Val, n)
		for i := range l {
			l[i] = vh.Val{I: int64(i%60) - 30}
		}
		iv = vh.Val{L: l}
	case 3: // counted slice with n (mostly empty) strings: count varint at the boundary
		if n > 1<<15 {
			n = 16384 + n%3
		}
		inner = vh.SliceOf(vh.T(vh.KString))
		l := make([]vh.Val, n)
		for i := range l {
			l[i] = vh.Val{S: []byte{}}
			if i%1000 == 0 {
				l[i] = vh.Val{S: []byte("x")}
			}
		}
		iv = vh.Val{L: l}
	case 4: // map with n entries
		if n > 1<<15 {
			n = 16384 + n%3
		}
		inner = vh.MapOf(vh.T(vh.KInt32), vh.T(vh.KBool))
		m := make([]vh.KV, n)
		for i := range m {
			m[i] = vh.KV{K: vh.Val{I: int64(i)}, V: vh.Val{B: i%2 == 0}}
		}
		iv = vh.Val{M: m}
	case 5: // fixed slice: n/8 float64 -> body near n bytes
		inner = vh.SliceOf(vh.T(vh.KFloat64))
		l := make([]vh.Val, n/8)
		for i := range l {
			l[i] = vh.Val{F: uint64(i) << 40}
		}
		iv = vh.Val{L: l}
	default: // struct whose body is about n bytes: two strings
		inner = vh.StructOf(vh.F("A", 1, vh.T(vh.KString)), vh.F("B", 300, vh.T(vh.KString)), vh.F("C", 2, vh.T(vh.KInt)))
		half := (n - 8) / 2
		iv = vh.Val{L: []vh.Val{{S: bytes.Repeat([]byte{'a'}, half)}, {S: bytes.Repeat([]byte{'b'}, n-8-half)}, {I: -1}}}
	}
	// the carrier field sometimes has an index that needs a 3- or 4-byte tag
	xIndex := []int{1, 1, 2047, 2048, 262143, 262144}[int(c.Fill)%6]
	ts := vh.StructOf(vh.F("X", xIndex, inner), vh.F("After", 2, vh.T(vh.KString)))
	v := vh.Val{L: []vh.Val{iv, {S: []byte("after")}}}
	for i := 0; i < c.Nested; i++ {
		if i%2 == 0 {
			ts = vh.StructOf(vh.F("W", 20, ts), vh.F("Z", 1, vh.T(vh.KInt)))
			v = vh.Val{L: []vh.Val{v, {I: 5}}}
		} else {
			ts = vh.StructOf(vh.F("L", 3, vh.SliceOf(ts)))
			v = vh.Val{L: []vh.Val{{L: []vh.Val{v}}}}
		}
	}
	return ts, v
}

func genBig(t *rapid.T) bigCase {
	return bigCase{
		Cfg:   vh.AllCfgs[rapid.IntRange(0, 3).Draw(t, "cfg")],
		Shape: rapid.IntRange(0, 6).Draw(t, "shape"), Size: bigSizes[rapid.IntRange(0, len(bigSizes)-1).Draw(t, "size")],
		Nested: rapid.IntRange(0, 2).Draw(t, "nested"), Fill: rapid.Byte().Draw(t, "fill"),
	}
}

func bigRun(id string) func(c bigCase, x *vh.Ctx) *vh.Failure {
	return func(c bigCase, x *vh.Ctx) *vh.Failure {
		vh.RequireOracle()
		ts, v := bigTypeAndValue(c)
		p := vh.NewPlenc(c.Cfg)
		got, err := vh.MarshalVal(p, ts, v)
		if err != nil {
			return vh.Fail(id+"/marshal-error", "%v", err)
		}
		ref := vh.RefEncode(ts, v, c.Cfg)
		if c.Shape == 4 {
			cg, e1 := vh.Canon(ts, got, c.Cfg, nil)
			cr, e2 := vh.Canon(ts, ref, c.Cfg, nil)
			if e1 != nil || e2 != nil || !bytes.Equal(cg, cr) {
				return vh.Fail(id+"/big-encoding-differs", "shape %d size %d: encodings differ up to map order (%v %v), lengths %d vs %d", c.Shape, c.Size, e1, e2, len(got), len(ref))
			}
		} else if !bytes.Equal(got, ref) {
			i := 0
			for i < len(got) && i < len(ref) && got[i] == ref[i] {
				i++
			}
			return vh.Fail(id+"/big-encoding-differs", "shape %d size %d nested %d: Marshal (%d bytes) and the reference encoding (%d bytes) differ at offset %d: % x vs % x",
				c.Shape, c.Size, c.Nested, len(got), len(ref), i, got[i:min(len(got), i+8)], ref[i:min(len(ref), i+8)])
		}
		if _, err := vh.Canon(ts, got, c.Cfg, nil); err != nil {
			return vh.Fail(id+"/big-output-not-walkable", "shape %d size %d: %v", c.Shape, c.Size, err)
		}
		out, err := vh.UnmarshalFresh(p, ts, got)
		if err != nil {
			return vh.Fail(id+"/big-unmarshal-error", "shape %d size %d: %v", c.Shape, c.Size, err)
		}
		if d := vh.Diff(ts, out, vh.Normalise(ts, v, c.Cfg)); d != "" {
			return vh.Fail(id+"/big-roundtrip-mismatch", "shape %d size %d: differs at %s", c.Shape, c.Size, d)
		}
		// codec law on the top-level codec: size == bytes appended, with a tag too
		rv := vh.ToReflect(ts, v)
		codec, err := p.CodecForType(rv.Type())
		if err != nil {
			return vh.Fail(id+"/codec-error", "%v", err)
		}
		ptr := rv.Addr().UnsafePointer()
		if s := codec.Size(ptr, nil); s != len(got) {
			return vh.Fail(id+"/big-size-differs", "shape %d size %d: Size %d, appended %d", c.Shape, c.Size, s, len(got))
		}
		tag := []byte{0x92, 0x01}
		if s, l := codec.Size(ptr, tag), len(codec.Append(nil, ptr, tag)); s != l {
			return vh.Fail(id+"/big-size-differs", "shape %d size %d: tagged Size %d, appended %d", c.Shape, c.Size, s, l)
		}
		x.Label(fmt.Sprintf("shape:%d", c.Shape))
		x.Label(fmt.Sprintf("size:%d", c.Size))
		x.NonTrivial()
		return nil
	}
}

var bigC02 = &vh.Prop[bigCase]{ID: "C02", Name: "big-lengths", Gen: genBig, Run: bigRun("C02")}
var bigC05 = &vh.Prop[bigCase]{ID: "C05", Name: "big-lengths", Gen: genBig, Run: bigRun("C05")}
var bigC01 = &vh.Prop[bigCase]{ID: "C01", Name: "big-lengths", Gen: genBig, Run: bigRun("C01")}

func init() { registrars = append(registrars, bigC02.Register, bigC05.Register, bigC01.Register) }

func TestC02Big(t *testing.T) { bigC02.Check(t, vh.N(60, 150)) }
func TestC05Big(t *testing.T) { bigC05.Check(t, vh.N(40, 100)) }
func TestC01Big(t *testing.T) { bigC01.Check(t, vh.N(40, 100)) }
