package props

import (
	"fmt"
	"github.com/philpearl/plenc"
	"reflect"
	"testing"

	"pgregory.net/rapid"

	"verifharness/vh"
)

// C10: re-used targets follow the merge rules; fresh decodes are independent
// of anything the instance did before.

type c10Op struct {
	Kind string `json:"kind"` // marshal | newTarget | decodeInto | decodeFresh | scribble | remarshal
	Type int    `json:"type"`
	Val  vh.Val `json:"val"`
	A    int    `json:"a"`
	B    int    `json:"b"`
	// Foreign (decodeInto): the bytes come from a twin instance with ProtoCompatibleArrays set, i.e. slices of
	// length-delimited elements arrive in the repeated form, which a default-mode instance reads by appending
	Foreign bool `json:"foreign,omitempty"`
}

type c10Case struct {
	Cfg   vh.Cfg      `json:"cfg"`
	Types []*vh.TSpec `json:"types"`
	Ops   []c10Op     `json:"ops"`
}

func genC10(t *rapid.T) c10Case {
	cfg := vh.AllCfgs[rapid.IntRange(0, 3).Draw(t, "cfg")]
	nt := rapid.IntRange(1, 3).Draw(t, "ntypes")
	c := c10Case{Cfg: cfg}
	prof := acceptedProfile(cfg)
	prof.TopStruct = true
	prof.MaxDepth = 2
	for i := 0; i < nt; i++ {
		if rapid.IntRange(0, 3).Draw(t, "poolheavy") == 0 {
			// types that lean on per-codec scratch state: struct-keyed maps, interned strings
			key := vh.StructOf(vh.F("A", 1, vh.T(vh.KInt)), vh.F("B", 2, vh.T(vh.KString)), vh.F("C", 3, vh.T(vh.KUint8)))
			c.Types = append(c.Types, vh.StructOf(
				vh.F("M", 1, vh.MapOf(key, vh.T(vh.KString))), vh.FOpt("S", 2, "intern", vh.T(vh.KString)),
				vh.F("N", 3, vh.MapOf(vh.T(vh.KString), vh.PtrOf(vh.StructOf(vh.F("X", 1, vh.T(vh.KInt)), vh.FOpt("Y", 2, "intern", vh.T(vh.KString)))))),
				vh.F("L", 4, vh.SliceOf(vh.T(vh.KString)))))
			continue
		}
		c.Types = append(c.Types, vh.GenType(t, prof))
	}
	nops := rapid.IntRange(3, 14).Draw(t, "nops")
	for i := 0; i < nops; i++ {
		var op c10Op
		op.Type = rapid.IntRange(0, nt-1).Draw(t, "ti")
		op.A = rapid.IntRange(0, 1000).Draw(t, "a")
		op.B = rapid.IntRange(0, 1000).Draw(t, "b")
		switch k := rapid.IntRange(0, 11).Draw(t, "kind"); {
		case i < 2 || k <= 2:
			op.Kind = "marshal"
			op.Val = vh.GenVal(t, c.Types[op.Type], vh.VProfile{Cfg: cfg})
		case k <= 4:
			op.Kind = "newTarget"
			op.Val = vh.GenVal(t, c.Types[op.Type], vh.VProfile{Cfg: cfg})
		case k <= 7:
			op.Kind = "decodeInto"
			op.Foreign = rapid.IntRange(0, 3).Draw(t, "foreign") == 0
		case k <= 8:
			op.Kind = "decodeFresh"
		case k == 9:
			op.Kind = "decodeCorrupt"
		case k == 10:
			if rapid.Bool().Draw(t, "reslice") {
				op.Kind = "reslice"
			} else {
				op.Kind = "scribble"
			}
		default:
			op.Kind = "remarshal"
		}
		c.Ops = append(c.Ops, op)
	}
	return c
}

type c10Buf struct {
	typ  int
	data []byte
	v    vh.Val
}

type c10Target struct {
	typ   int
	rv    reflect.Value
	model vh.Val
	uses  int
}

var c10 = &vh.Prop[c10Case]{
	ID: "C10", Name: "reuse-state-machine",
	Gen: genC10,
	Run: func(c c10Case, x *vh.Ctx) *vh.Failure {
		x.Label("cfg:" + c.Cfg.String())
		p := longLivedPlenc(c.Cfg) // history from every earlier case too
		var bufs []c10Buf
		var targets []c10Target
		var twin *plenc.Plenc
		decodesOfType := map[int]int{}
		invariant := func(step int, what string) *vh.Failure {
			for ti, tg := range targets {
				got := vh.FromReflect(c.Types[tg.typ], tg.rv)
				if d := vh.DiffLoose(c.Types[tg.typ], got, tg.model); d != "" {
					return vh.Fail("C10/target-differs-from-model", "after step %d (%s): target %d differs from the merge model at %s", step, what, ti, d)
				}
			}
			return nil
		}
		for step, op := range c.Ops {
			ts := c.Types[op.Type]
			switch op.Kind {
			case "marshal":
				data, err := vh.MarshalVal(p, ts, op.Val)
				if err != nil {
					return vh.Fail("C10/marshal-error", "step %d: %v", step, err)
				}
				bufs = append(bufs, c10Buf{op.Type, append(make([]byte, 0, len(data)+8), data...), op.Val})
			case "remarshal":
				if len(bufs) == 0 {
					continue
				}
				b := &bufs[op.A%len(bufs)]
				rv := vh.ToReflect(c.Types[b.typ], b.v)
				out, err := p.Marshal(b.data[:0], rv.Addr().Interface())
				if err != nil {
					return vh.Fail("C10/marshal-error", "step %d: %v", step, err)
				}
				b.data = out
			case "scribble":
				if len(bufs) == 0 {
					continue
				}
				b := &bufs[op.A%len(bufs)]
				full := b.data[:cap(b.data)]
				for i := range full {
					full[i] = byte(0xC3 + i)
				}
				// the slot is refilled with a valid encoding so later ops can use it
				rv := vh.ToReflect(c.Types[b.typ], b.v)
				out, err := p.Marshal(b.data[:0], rv.Addr().Interface())
				if err != nil {
					return vh.Fail("C10/marshal-error", "step %d: %v", step, err)
				}
				b.data = out
				x.Label("op:scribble")
			case "decodeCorrupt":
				// a failed decode (truncated / damaged input) must not leave anything behind in the
				// instance's pools or tables; its own result is not examined (C04 covers that)
				if len(bufs) == 0 {
					continue
				}
				b := bufs[op.A%len(bufs)]
				if len(b.data) < 2 {
					continue
				}
				// every truncation point, then a few damaged variants: some fail right after a map
				// key / a string / a nested struct has been decoded into pooled or shared scratch
				bt := c.Types[b.typ].Build()
				lim := len(b.data)
				if lim > 160 {
					lim = 160
				}
				for cut := 0; cut < lim; cut++ {
					scratch := reflect.New(bt)
					_ = p.Unmarshal(b.data[:cut:cut], scratch.Interface())
				}
				for k := 0; k < 6; k++ {
					bad := append([]byte{}, b.data...)
					pos := (op.B + k*7) % len(bad)
					switch (op.A + k) % 3 {
					case 0:
						bad[pos] ^= 0x55
					case 1:
						bad[pos] = 0xff
					default:
						bad = append(bad[:pos], 0xff, 0xff, 0xff, 0xff, 0x0f)
					}
					scratch := reflect.New(bt)
					_ = p.Unmarshal(bad, scratch.Interface())
				}
				x.Label("op:decodeCorrupt")
			case "reslice":
				// the caller shortens the slices of a target (s = s[:n]) and keeps the backing arrays:
				// what lies beyond len is stale and must never resurface
				if len(targets) == 0 {
					continue
				}
				tg := &targets[op.A%len(targets)]
				resliceTop(c.Types[tg.typ], tg.rv, &tg.model, op.B)
				x.Label("op:reslice")
			case "newTarget":
				rv := vh.ToReflect(ts, op.Val)
				targets = append(targets, c10Target{typ: op.Type, rv: rv, model: vh.FromReflect(ts, rv)})
			case "decodeFresh":
				if len(bufs) == 0 {
					continue
				}
				b := bufs[op.A%len(bufs)]
				bt := c.Types[b.typ]
				got, err := vh.UnmarshalFresh(p, bt, b.data)
				if err != nil {
					return vh.Fail("C10/decode-error", "step %d: %v", step, err)
				}
				want := vh.Normalise(bt, b.v, c.Cfg)
				if d := vh.Diff(bt, got, want); d != "" {
					return vh.Fail("C10/fresh-decode-depends-on-history", "step %d: decode into a fresh variable on the long-lived instance differs from the normalised value at %s", step, d)
				}
				got2, err := vh.UnmarshalFresh(vh.NewPlenc(c.Cfg), bt, b.data)
				if err != nil || vh.Diff(bt, got, got2) != "" {
					return vh.Fail("C10/fresh-decode-depends-on-history", "step %d: long-lived and brand-new instance disagree (%v)", step, err)
				}
				decodesOfType[b.typ]++
				if decodesOfType[b.typ] >= 3 {
					x.NonTrivial()
					x.Label("fresh-after-history")
				}
			case "decodeInto":
				if len(bufs) == 0 {
					continue
				}
				b := bufs[op.A%len(bufs)]
				bt := c.Types[b.typ]
				// find a target of that type, or make a zero one
				idx := -1
				for k := 0; k < len(targets); k++ {
					j := (op.B + k) % len(targets)
					if targets[j].typ == b.typ {
						idx = j
						break
					}
				}
				if idx < 0 {
					rv := reflect.New(bt.Build()).Elem()
					targets = append(targets, c10Target{typ: b.typ, rv: rv, model: vh.ZeroVal(bt)})
					idx = len(targets) - 1
				}
				tg := &targets[idx]
				prior := tg.model
				data, mcfg := b.data, c.Cfg
				if op.Foreign && !c.Cfg.ProtoArrays && !bt.Has(func(x *vh.TSpec) bool { return x.Kind == vh.KMap }) {
					mcfg.ProtoArrays = true
					if twin == nil {
						twin = vh.NewPlenc(mcfg)
					}
					var err error
					if data, err = vh.MarshalVal(twin, bt, b.v); err != nil {
						return vh.Fail("C10/marshal-error", "step %d: twin instance: %v", step, err)
					}
					x.Label("decode-foreign-repeated-form")
				}
				if err := vh.UnmarshalInto(p, tg.rv, data); err != nil {
					return vh.Fail("C10/decode-error", "step %d: %v", step, err)
				}
				tg.model = vh.Merge(bt, prior, b.v, mcfg)
				tg.uses++
				decodesOfType[b.typ]++
				if vh.HasNonZeroLeaf(prior) && vh.HasNonZeroLeaf(b.v) {
					x.NonTrivial()
					x.Label("decode-into-populated-target")
				}
			}
			if f := invariant(step, op.Kind); f != nil {
				f.Msg += fmt.Sprintf("\nops so far: %d", step+1)
				return f
			}
		}
		return nil
	},
}

func init() { registrars = append(registrars, c10.Register) }

func TestC10(t *testing.T) { c10.Check(t, vh.N(8000, 12000)) }

// resliceTop shortens the slice-typed fields of a struct target (and the
// model with them), keeping capacity.
func resliceTop(ts *vh.TSpec, rv reflect.Value, model *vh.Val, salt int) {
	u := ts.Under()
	if u.Kind != vh.KStruct {
		return
	}
	for i, f := range u.Fields {
		fu := f.Type.Under()
		if _, _, ok := f.Enc(); !ok || fu.Kind != vh.KSlice {
			continue
		}
		fv := rv.Field(i)
		n := fv.Len()
		if n == 0 || !fv.CanSet() {
			continue
		}
		keep := (salt + i) % (n + 1)
		if keep == n {
			keep = n / 2
		}
		fv.SetLen(keep)
		if !model.L[i].Nil {
			model.L[i].L = model.L[i].L[:keep]
		}
	}
}
