package props

import (
	"fmt"
	"testing"

	"pgregory.net/rapid"

	"verifharness/vh"
)

// C10 for the JSON-any codecs: a history of decodes into one re-used
// map[string]any / []any target (top level or struct field), with the caller
// shortening the slice in between. Model: an array holds exactly the decoded
// elements (an absent field keeps the prior value); an object keeps its prior
// members and takes the decoded ones, each value replaced as a whole.

type c10jOp struct {
	Kind string `json:"kind"` // decode, reslice, fresh
	Tree *jany  `json:"tree,omitempty"`
	N    int    `json:"n,omitempty"`
}

type c10jCase struct {
	Obj   bool     `json:"obj"`
	Field bool     `json:"field"`
	Ops   []c10jOp `json:"ops"`
}

func genJRoot(t *rapid.T, obj bool) jany {
	n := rapid.IntRange(0, 6).Draw(t, "rootn")
	if obj {
		o := jany{K: "obj"}
		seen := map[string]bool{}
		for i := 0; i < n; i++ {
			// few distinct keys so that histories overwrite members
			k := []byte([]string{"", "a", "b", "c", "k\x00", "é"}[rapid.IntRange(0, 5).Draw(t, "rk")])
			if rapid.IntRange(0, 4).Draw(t, "rkrand") == 0 {
				k = genJString(t)
			}
			if seen[string(k)] {
				continue
			}
			seen[string(k)] = true
			o.Keys = append(o.Keys, k)
			o.Kids = append(o.Kids, genJAny(t, 2))
		}
		return o
	}
	a := jany{K: "arr"}
	for i := 0; i < n; i++ {
		if rapid.IntRange(0, 2).Draw(t, "rnil") == 0 {
			a.Kids = append(a.Kids, jany{K: "nil"}) // nil entries carry no value on the wire
		} else {
			a.Kids = append(a.Kids, genJAny(t, 2))
		}
	}
	return a
}

var c10JSON = &vh.Prop[c10jCase]{
	ID: "C10", Name: "json-any-reuse",
	Gen: func(t *rapid.T) c10jCase {
		c := c10jCase{Obj: rapid.Bool().Draw(t, "obj"), Field: rapid.Bool().Draw(t, "field")}
		n := rapid.IntRange(2, 8).Draw(t, "nops")
		for i := 0; i < n; i++ {
			switch k := rapid.IntRange(0, 9).Draw(t, "op"); {
			case k <= 5 || i == 0:
				tr := genJRoot(t, c.Obj)
				c.Ops = append(c.Ops, c10jOp{Kind: "decode", Tree: &tr})
			case k <= 8:
				c.Ops = append(c.Ops, c10jOp{Kind: "reslice", N: rapid.IntRange(0, 6).Draw(t, "keep")})
			default:
				c.Ops = append(c.Ops, c10jOp{Kind: "fresh"})
			}
		}
		return c
	},
	Run: func(c c10jCase, x *vh.Ctx) *vh.Failure {
		p := newJSONPlenc()
		var (
			topMap   map[string]any
			topArr   []any
			fieldMap = &c16WithMap{}
			fieldArr = &c16WithArr{}
			modelArr []*jany
			modelMap = map[string]*jany{}
		)
		curArr := func() []any {
			if c.Field {
				return fieldArr.J
			}
			return topArr
		}
		curMap := func() map[string]any {
			if c.Field {
				return fieldMap.J
			}
			return topMap
		}
		resliced := false
		for step, op := range c.Ops {
			switch op.Kind {
			case "fresh":
				topMap, topArr, fieldMap, fieldArr = nil, nil, &c16WithMap{}, &c16WithArr{}
				modelArr, modelMap = nil, map[string]*jany{}
			case "reslice":
				if c.Obj {
					continue
				}
				a := curArr()
				k := op.N
				if k > len(a) {
					k = len(a)
				}
				if c.Field {
					fieldArr.J = a[:k]
				} else {
					topArr = a[:k]
				}
				modelArr = modelArr[:k]
				resliced = true
				x.Label("op:reslice")
			case "decode":
				src := op.Tree.toGo()
				var data []byte
				var err error
				switch {
				case c.Obj && c.Field:
					m, _ := src.(map[string]any)
					data, err = p.Marshal(nil, &c16WithMap{A: step + 1, J: m, B: "b"})
				case c.Obj:
					m, _ := src.(map[string]any)
					data, err = p.Marshal(nil, &m)
				case c.Field:
					a, _ := src.([]any)
					data, err = p.Marshal(nil, &c16WithArr{A: step + 1, J: a, B: "b"})
				default:
					a, _ := src.([]any)
					data, err = p.Marshal(nil, &a)
				}
				if err != nil {
					return vh.Fail("C10/marshal-error", "step %d: %v", step, err)
				}
				switch {
				case c.Obj && c.Field:
					err = p.Unmarshal(data, fieldMap)
				case c.Obj:
					err = p.Unmarshal(data, &topMap)
				case c.Field:
					err = p.Unmarshal(data, fieldArr)
				default:
					err = p.Unmarshal(data, &topArr)
				}
				if err != nil {
					return vh.Fail("C10/unmarshal-error", "step %d: % x: %v", step, data, err)
				}
				if c.Obj {
					for i := range op.Tree.Kids {
						modelMap[string(op.Tree.Keys[i])] = &op.Tree.Kids[i]
					}
				} else if len(op.Tree.Kids) > 0 || !c.Field {
					// an empty array field is omitted from the encoding: the prior value stays
					modelArr = modelArr[:0:0]
					for i := range op.Tree.Kids {
						modelArr = append(modelArr, &op.Tree.Kids[i])
					}
				}
				x.Label("op:decode")
			}
			// invariant
			if c.Obj {
				m := curMap()
				if len(m) != len(modelMap) {
					return vh.Fail("C10/json-target-differs-from-model", "after step %d (%s): object has %d members, model %d", step, op.Kind, len(m), len(modelMap))
				}
				for k, want := range modelMap {
					got, ok := m[k]
					if !ok {
						return vh.Fail("C10/json-target-differs-from-model", "after step %d (%s): member %q missing", step, op.Kind, k)
					}
					if err := janyEqual(want, got, fmt.Sprintf("$.%q", k)); err != nil {
						return vh.Fail("C10/json-target-differs-from-model", "after step %d (%s): %v", step, op.Kind, err)
					}
				}
			} else {
				a := curArr()
				if len(a) != len(modelArr) {
					return vh.Fail("C10/json-target-differs-from-model", "after step %d (%s): array has %d elements, model %d", step, op.Kind, len(a), len(modelArr))
				}
				for i, want := range modelArr {
					if err := janyEqual(want, a[i], fmt.Sprintf("$[%d]", i)); err != nil {
						return vh.Fail("C10/json-target-differs-from-model", "after step %d (%s): %v (stale element of a re-used backing array?)", step, op.Kind, err)
					}
				}
			}
		}
		if resliced || (c.Obj && len(c.Ops) > 2) {
			x.NonTrivial()
		}
		return nil
	},
}

func init() { registrars = append(registrars, c10JSON.Register) }

func TestC10JSONAny(t *testing.T) { c10JSON.Check(t, vh.N(8000, 20000)) }
