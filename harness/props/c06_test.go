package props

import (
	"bytes"
	"testing"

	"pgregory.net/rapid"

	"verifharness/vh"
)

// C06: Marshal(buf, v) == buf ‖ Marshal(nil, v), by value or by pointer, on
// every repetition, whatever the buffer's contents and capacity.

type c06Case struct {
	c01Case
	Prefix  []byte `json:"prefix"`
	CapMode int    `json:"cap_mode"` // 0: cap==len, 1: +1, 2: exact fit, 3: exact fit -1, 4: large
	Reps    int    `json:"reps"`
}

// pointerShapedProfile weights types whose by-value interface representation
// is a single pointer word (struct with one pointer/map field, nested).
func genPointerShaped(t *rapid.T) *vh.TSpec {
	var inner *vh.TSpec
	switch rapid.IntRange(0, 3).Draw(t, "psk") {
	case 0:
		inner = vh.PtrOf(vh.T(vh.KInt))
	case 1:
		inner = vh.MapOf(vh.T(vh.KString), vh.T(vh.KInt))
	case 2:
		inner = vh.PtrOf(vh.NamedT("Leaf"))
	default:
		inner = vh.PtrOf(vh.T(vh.KString))
	}
	ts := vh.StructOf(vh.F("P", 1, inner))
	for i := rapid.IntRange(0, 2).Draw(t, "wrap"); i > 0; i-- {
		ts = vh.StructOf(vh.F("W", 2, ts))
	}
	return ts
}

var c06 = &vh.Prop[c06Case]{
	ID: "C06", Name: "append-semantics",
	Gen: func(t *rapid.T) c06Case {
		var c c01Case
		if rapid.IntRange(0, 5).Draw(t, "ptrshaped") == 0 {
			c.Cfg = vh.AllCfgs[rapid.IntRange(0, 3).Draw(t, "cfg")]
			c.T = genPointerShaped(t)
			c.Vals = []vh.Val{vh.GenVal(t, c.T, vh.VProfile{Cfg: c.Cfg})}
		} else {
			c = genTypedCase(t, 3)
		}
		// extra weight on values that encode to nothing
		if rapid.IntRange(0, 4).Draw(t, "zero") == 0 {
			c.Vals[0] = vh.ZeroVal(c.T)
		}
		return c06Case{
			c01Case: c,
			Prefix:  rapid.SliceOfN(rapid.Byte(), 0, 40).Draw(t, "prefix"),
			CapMode: rapid.IntRange(0, 4).Draw(t, "capmode"),
			Reps:    rapid.IntRange(1, 4).Draw(t, "reps"),
		}
	},
	Run: func(c c06Case, x *vh.Ctx) *vh.Failure {
		x.Label("cfg:" + c.Cfg.String())
		p := vh.NewPlenc(c.Cfg)
		v := c.Vals[0]
		unordered := hasMultiEntryMap(c.T, v)
		same := func(a, b []byte) bool {
			if !unordered {
				return bytes.Equal(a, b)
			}
			ca, err1 := vh.Canon(c.T, a, c.Cfg, nil)
			cb, err2 := vh.Canon(c.T, b, c.Cfg, nil)
			return err1 == nil && err2 == nil && bytes.Equal(ca, cb)
		}
		rv := vh.ToReflect(c.T, v)
		base, err := p.Marshal(nil, rv.Addr().Interface())
		if err != nil {
			return vh.Fail("C06/marshal-error", "Marshal(nil, &v): %v", err)
		}
		x.LabelIf(len(base) == 0, "encodes-to-nothing")
		x.LabelIf(len(c.Prefix) == 0, "empty-prefix")
		mkbuf := func() []byte {
			capacity := len(c.Prefix)
			switch c.CapMode {
			case 1:
				capacity++
			case 2:
				capacity += len(base)
			case 3:
				capacity += len(base) - 1
				if capacity < len(c.Prefix) {
					capacity = len(c.Prefix)
				}
			case 4:
				capacity += len(base) + 64
			}
			b := make([]byte, len(c.Prefix), capacity)
			copy(b, c.Prefix)
			return b
		}
		for _, byValue := range []bool{false, true} {
			conv := "pointer"
			if byValue {
				conv = "value"
			}
			buf := mkbuf()
			orig := buf
			for rep := 0; rep < c.Reps; rep++ {
				var arg any
				if byValue {
					arg = rv.Interface()
				} else {
					arg = rv.Addr().Interface()
				}
				out, err := p.Marshal(buf, arg)
				if err != nil {
					return vh.Fail("C06/marshal-error", "Marshal(buf, by %s): %v", conv, err)
				}
				if len(out) < len(c.Prefix) || !bytes.Equal(out[:len(c.Prefix)], c.Prefix) {
					cls := "C06/prefix-lost"
					if len(base) == 0 {
						cls = "C06/prefix-lost-when-nothing-encoded"
					}
					return vh.Fail(cls, "by %s, rep %d: prefix % x not preserved: result % x (nil=%v)", conv, rep, c.Prefix, out, out == nil)
				}
				if !same(out[len(c.Prefix):], base) {
					return vh.Fail("C06/encoding-depends-on-call", "by %s, rep %d: appended bytes % x differ from Marshal(nil,&v) % x", conv, rep, out[len(c.Prefix):], base)
				}
				if !bytes.Equal(orig[:len(c.Prefix)], c.Prefix) {
					return vh.Fail("C06/caller-buffer-modified", "by %s, rep %d: caller's bytes below len changed to % x", conv, rep, orig[:len(c.Prefix)])
				}
				x.LabelIf(len(out) > 0 && len(orig) > 0 && &out[0] != &orig[0], "reallocated")
				x.LabelIf(len(out) > 0 && len(orig) > 0 && &out[0] == &orig[0], "in-place")
				// reuse the returned buffer for the next repetition, as README suggests (data[:0] style)
				buf = out[:len(c.Prefix)]
				orig = buf
			}
		}
		// value not modified by marshalling
		if after := vh.FromReflect(c.T, rv); vh.Diff(c.T, after, vh.FromReflect(c.T, vh.ToReflect(c.T, v))) != "" {
			return vh.Fail("C06/value-modified", "Marshal changed the value")
		}
		// the same variable, changed in place, marshalled again into a buffer the caller supplies: the
		// encoding depends on the value now in it, not on what was at that address before. The expected
		// bytes come from a second instance that has never seen this variable.
		if len(c.Vals) > 1 {
			p2 := vh.NewPlenc(c.Cfg)
			for i, w := range c.Vals[1:] {
				rv.Set(vh.ToReflect(c.T, w))
				fresh := vh.ToReflect(c.T, w)
				want, err := p2.Marshal(nil, fresh.Addr().Interface())
				if err != nil {
					return vh.Fail("C06/marshal-error", "Marshal(nil, &w): %v", err)
				}
				buf := make([]byte, len(c.Prefix), len(c.Prefix)+8)
				copy(buf, c.Prefix)
				got, err := p.Marshal(buf, rv.Addr().Interface())
				if err != nil {
					return vh.Fail("C06/marshal-error", "Marshal(buf, &v) after changing v in place: %v", err)
				}
				wasUnordered := unordered
				unordered = hasMultiEntryMap(c.T, w)
				ok := len(got) >= len(c.Prefix) && bytes.Equal(got[:len(c.Prefix)], c.Prefix) && same(got[len(c.Prefix):], want)
				unordered = wasUnordered
				if !ok {
					return vh.Fail("C06/encoding-depends-on-history", "value %d written over the variable that held value %d, then Marshal(buf, &v): % x, but a fresh copy on a fresh instance encodes to % x", i+1, i, got, want)
				}
				x.Label("in-place-change")
			}
		}
		if len(c.Prefix) > 0 {
			x.NonTrivial()
		}
		return nil
	},
}

func init() { registrars = append(registrars, c06.Register) }

func TestC06(t *testing.T) { c06.Check(t, vh.N(20000, 30000)) }
