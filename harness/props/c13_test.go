package props

import (
	"bytes"
	"encoding/json"
	"fmt"
	"math"
	"reflect"
	"testing"
	"time"

	"github.com/philpearl/plenc/plenccodec"
	"pgregory.net/rapid"

	"verifharness/vh"
)

// C13: walking Marshal(v) with T's Descriptor and the JSON outputter gives
// valid JSON equal to v in the JSON data model; identical when the Descriptor
// was first serialised and restored through plenc or encoding/json.

type c13Case struct {
	T    *vh.TSpec `json:"type"`
	Vals []vh.Val  `json:"vals"`
	// what a re-used outputter has been through before each walk:
	// 0 nothing, 1 a rejected (truncated) input, 2 a non-finite number, 3 an unfinished walk
	Poison int `json:"poison,omitempty"`
	// BQ: the instance has BQTimestampCodec registered for time.Time (an integer of microseconds with the
	// timestamp logical type); times are whole microseconds. The JSON is the same as with the default codec.
	BQ bool `json:"bq,omitempty"`
}

// c13Domain adjusts a generated value to the C13 domain: fields tagged flat
// narrower than 64 bits hold non-negative values (the descriptor carries no
// width, descriptor.go: "Don't use if negative numbers are likely").
func c13FixFlat(t *vh.TSpec, opt string, v *vh.Val) {
	u := t.Under()
	switch u.Kind {
	case vh.KInt8, vh.KInt16, vh.KInt32:
		if opt == "flat" && v.I < 0 {
			v.I = -(v.I + 1)
		}
	case vh.KPtr:
		if !v.Nil {
			c13FixFlat(u.Elem, opt, v.P)
		}
	case vh.KStruct:
		for i, f := range u.Fields {
			if _, fopt, ok := f.Enc(); ok {
				c13FixFlat(f.Type, fopt, &v.L[i])
			}
		}
	case vh.KSlice:
		for i := range v.L {
			c13FixFlat(u.Elem, "", &v.L[i])
		}
	case vh.KMap:
		for i := range v.M {
			c13FixFlat(u.Elem, "", &v.M[i].V)
		}
	}
}

func hasOpt(t *vh.TSpec, opt string) bool {
	return t.Has(func(x *vh.TSpec) bool {
		if x.Kind != vh.KStruct {
			return false
		}
		for _, f := range x.Fields {
			if _, o, ok := f.Enc(); ok && o == opt {
				return true
			}
		}
		return false
	})
}

func descriptorEqual(a, b *plenccodec.Descriptor) bool {
	if a.Index != b.Index || a.Name != b.Name || a.Type != b.Type || a.TypeName != b.TypeName ||
		a.ExplicitPresence != b.ExplicitPresence || a.LogicalType != b.LogicalType || len(a.Elements) != len(b.Elements) {
		return false
	}
	for i := range a.Elements {
		if !descriptorEqual(&a.Elements[i], &b.Elements[i]) {
			return false
		}
	}
	return true
}

var c13 = &vh.Prop[c13Case]{
	ID: "C13", Name: "descriptor-json",
	Gen: func(t *rapid.T) c13Case {
		p := acceptedProfile(vh.Cfg{})
		var ts *vh.TSpec
		for {
			ts = vh.GenType(t, p)
			// the repeated (proto) form carries no marker in the Descriptor: outside this property's domain
			if !hasOpt(ts, "proto") {
				break
			}
		}
		n := rapid.IntRange(1, 2).Draw(t, "nvals")
		vals := make([]vh.Val, n)
		for i := range vals {
			vals[i] = vh.GenVal(t, ts, vh.VProfile{NoNaN: true, JSONTimes: true})
			c13FixFlat(ts, "", &vals[i])
		}
		// (with that codec a time is an integer on the wire, so nil entries of a []*time.Time are dropped instead of
		// becoming zero values: the JSON model below describes the length-delimited form, such types stay out)
		bq := rapid.IntRange(0, 5).Draw(t, "bq") == 0 && ts.Has(func(x *vh.TSpec) bool { return x.Kind == vh.KTime }) &&
			!ts.Has(func(x *vh.TSpec) bool {
				if x.Kind != vh.KSlice {
					return false
				}
				e := x.Elem.Under()
				isPtr := false
				for e.Kind == vh.KPtr {
					e, isPtr = e.Elem.Under(), true
				}
				return isPtr && e.Kind == vh.KTime
			})
		if bq {
			for i := range vals {
				alignMicros(ts, &vals[i])
			}
		}
		return c13Case{T: ts, Vals: vals, Poison: rapid.IntRange(0, 3).Draw(t, "poison"), BQ: bq}
	},
	Run: func(c c13Case, x *vh.Ctx) *vh.Failure {
		for _, l := range vh.ShapeLabels(c.T) {
			x.Label(l)
		}
		if c.T.IsRecursive() {
			x.Label("excluded:recursive")
			x.Exclude(findingDescriptorRecursive)
			return nil
		}
		p := vh.NewPlenc(vh.Cfg{})
		if c.BQ {
			p.RegisterCodec(reflect.TypeOf(time.Time{}), plenccodec.BQTimestampCodec{})
			x.Label("bq-timestamp-codec")
		}
		codec, err := p.CodecForType(c.T.Build())
		if err != nil {
			return vh.Fail("C13/codec-error", "%v", err)
		}
		direct := codec.Descriptor()
		// restored through plenc itself
		db, err := p.Marshal(nil, &direct)
		if err != nil {
			return vh.Fail("C13/descriptor-marshal-error", "%v", err)
		}
		var viaPlenc plenccodec.Descriptor
		if err := p.Unmarshal(db, &viaPlenc); err != nil {
			return vh.Fail("C13/descriptor-unmarshal-error", "%v", err)
		}
		// restored through encoding/json
		jb, err := json.Marshal(&direct)
		if err != nil {
			return vh.Fail("C13/descriptor-json-error", "%v", err)
		}
		var viaJSON plenccodec.Descriptor
		if err := json.Unmarshal(jb, &viaJSON); err != nil {
			return vh.Fail("C13/descriptor-json-error", "%v", err)
		}
		if !descriptorEqual(&direct, &viaPlenc) {
			return vh.Fail("C13/descriptor-changed-by-plenc-roundtrip", "descriptor differs after Marshal/Unmarshal through plenc")
		}
		if !descriptorEqual(&direct, &viaJSON) {
			return vh.Fail("C13/descriptor-changed-by-json-roundtrip", "descriptor differs after a round trip through encoding/json")
		}
		var reused plenccodec.JSONOutput
		for vi, v := range c.Vals {
			for _, l := range vh.ValueLabels(c.T, v) {
				x.Label(l)
			}
			data, err := vh.MarshalVal(p, c.T, v)
			if err != nil {
				return vh.Fail("C13/marshal-error", "%v", err)
			}
			top := v
			if vh.RefOmit(c.T, v) {
				top = vh.ZeroVal(c.T) // a value that encodes to nothing stands for the zero value (-0 becomes 0)
			}
			want := vh.ExpectedJSON(c.T, "", top)
			var first []byte
			for di, d := range []*plenccodec.Descriptor{&direct, &viaPlenc, &viaJSON} {
				var out plenccodec.JSONOutput
				if err := d.Read(&out, data); err != nil {
					return vh.Fail(c13Class("read-error", c.T, v), "value %d: Descriptor.Read(% x): %v", vi, data, err)
				}
				doc := append([]byte{}, out.Done()...)
				if di == 0 {
					first = doc
					if !json.Valid(doc) {
						return vh.Fail(c13Class("invalid-json", c.T, v), "value %d: output is not valid JSON: %q (bytes % x)", vi, doc, data)
					}
					got, err := vh.ParseJSON(doc)
					if err != nil {
						return vh.Fail(c13Class("invalid-json", c.T, v), "value %d: %v: %q", vi, err, doc)
					}
					if err := vh.MatchJSON(want, got, "$"); err != nil {
						return vh.Fail(c13Class("content-differs", c.T, v), "value %d: %v\noutput %q\nbytes % x", vi, err, doc, data)
					}
					if bytes.ContainsAny(doc, "[{") && (len(got.Pairs) > 0 || len(got.Elems) > 0) {
						x.NonTrivial()
					}
				} else if !bytes.Equal(doc, first) {
					return vh.Fail("C13/restored-descriptor-output-differs", "value %d: output with restored descriptor %d differs:\n%q\n%q", vi, di, doc, first)
				}
			}
			// one outputter for the whole case, Reset before each walk, whatever it went through before
			switch c.Poison {
			case 1:
				if len(data) > 1 {
					reused.Reset()
					direct.Read(&reused, data[:len(data)-1-len(data)/3]) // usually rejected part-way; no Done
					x.Label("reused-outputter:after-rejected-input")
				}
			case 2:
				reused.Reset()
				reused.StartArray()
				reused.Float64(math.NaN())
				reused.Float32(float32(math.Inf(-1)))
				reused.EndArray()
				reused.Done()
				x.Label("reused-outputter:after-non-finite")
			case 3:
				reused.Reset()
				reused.StartObject()
				reused.NameField("open")
				reused.StartArray()
				x.Label("reused-outputter:after-unfinished")
			}
			reused.Reset()
			if err := direct.Read(&reused, data); err != nil {
				return vh.Fail("C13/reused-outputter-differs", "value %d: walk with a re-used outputter (history %d) fails: %v", vi, c.Poison, err)
			}
			if doc := reused.Done(); !bytes.Equal(doc, first) {
				return vh.Fail("C13/reused-outputter-differs", "value %d: a re-used outputter (history %d, Reset before the walk) gives %q, a new one %q", vi, c.Poison, doc, first)
			}
		}
		return nil
	},
}

// c13Class refines a failure class with the value/type category that
// triggers it, so that whole categories can be listed as known findings
// without hiding different violations.
func c13Class(kind string, t *vh.TSpec, v vh.Val) string {
	return fmt.Sprintf("C13/%s", kind)
}

func init() { registrars = append(registrars, c13.Register) }

func TestC13(t *testing.T) { c13.Check(t, vh.N(20000, 30000)) }
