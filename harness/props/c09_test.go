package props

import (
	"fmt"
	"testing"

	"github.com/philpearl/plenc/plenccodec"
	"pgregory.net/rapid"

	"verifharness/vh"
)

// C09: explicit presence. Pointer fields, pointer-valued map entries and the
// null types keep nil/invalid vs present (even present-zero) across a round
// trip; plain fields have no presence (zero omitted, reads back zero); the
// Descriptor flags exactly the former group.

type c09Case struct {
	Cfg  vh.Cfg    `json:"cfg"`
	T    *vh.TSpec `json:"type"`
	Vals []vh.Val  `json:"vals"`
}

var c09Leaves = []vh.Kind{vh.KBool, vh.KInt, vh.KInt8, vh.KInt64, vh.KUint, vh.KUint8, vh.KUint32, vh.KFloat32, vh.KFloat64, vh.KString, vh.KBytes, vh.KTime}
var c09Nulls = []vh.Kind{vh.KNullInt, vh.KNullBool, vh.KNullFloat, vh.KNullString, vh.KNullTime}

func genPresenceStruct(t *rapid.T, depth int, cfg vh.Cfg) *vh.TSpec {
	n := rapid.IntRange(1, 5).Draw(t, "nf")
	fs := make([]vh.Field, 0, n)
	leaf := func() *vh.TSpec { return vh.T(c09Leaves[rapid.IntRange(0, len(c09Leaves)-1).Draw(t, "leaf")]) }
	small := func() *vh.TSpec {
		if depth < 2 && rapid.Bool().Draw(t, "nest") {
			return genPresenceStruct(t, depth+1, cfg)
		}
		return vh.StructOf(vh.F("A", 1, leaf()), vh.F("B", 2, vh.PtrOf(leaf())))
	}
	key := func() *vh.TSpec {
		return vh.T([]vh.Kind{vh.KString, vh.KInt, vh.KUint8, vh.KBool, vh.KInt64}[rapid.IntRange(0, 4).Draw(t, "key")])
	}
	for i := 0; i < n; i++ {
		var ft *vh.TSpec
		opt := ""
		switch rapid.IntRange(0, 11).Draw(t, "pos") {
		case 0, 1:
			ft = vh.PtrOf(leaf())
		case 2:
			ft = vh.PtrOf(small())
		case 3:
			ft = vh.T(c09Nulls[rapid.IntRange(0, 4).Draw(t, "null")])
		case 4:
			ft = vh.MapOf(key(), vh.PtrOf(leaf()))
		case 5:
			ft = vh.MapOf(key(), vh.PtrOf(small()))
		case 6:
			ft = vh.MapOf(key(), vh.T(c09Nulls[rapid.IntRange(0, 4).Draw(t, "mnull")]))
		case 7:
			// pointer to a slice: present-but-empty pointee
			if rapid.Bool().Draw(t, "pslk") || cfg.ProtoArrays {
				ft = vh.PtrOf(vh.SliceOf(vh.T(vh.KInt)))
			} else {
				ft = vh.PtrOf(vh.SliceOf(vh.T(vh.KString)))
			}
		case 8:
			ft = small() // nested struct: presence positions one level down
		case 9:
			ft = leaf() // plain counterpart
		case 10:
			ft = vh.MapOf(key(), leaf())
		default:
			ft = vh.SliceOf(leaf())
			if ft.Elem.Kind == vh.KUint8 {
				ft = vh.T(vh.KBytes)
			}
		}
		if ft.Kind == vh.KMap && rapid.IntRange(0, 3).Draw(t, "proto") == 0 {
			opt = "proto"
		}
		if k := ft.Under().Kind; (k == vh.KString || k == vh.KNullString) && rapid.IntRange(0, 2).Draw(t, "intern") == 0 {
			opt = "intern"
		}
		if k := ft.Under().Kind; (k == vh.KInt || k == vh.KInt8 || k == vh.KInt64 || (k == vh.KPtr && ft.Under().Elem.Under().Kind.IsSignedInt())) && rapid.IntRange(0, 3).Draw(t, "flat") == 0 {
			opt = "flat"
		}
		f := vh.F(fmt.Sprintf("F%d", i), i+1+rapid.IntRange(0, 1).Draw(t, "gap")*20*(i+1), ft)
		if opt != "" {
			f.Plenc += "," + opt
		}
		fs = append(fs, f)
	}
	return vh.StructOf(fs...)
}

// isPresencePos: the type has explicit presence in a field / map value position.
func isPresenceType(t *vh.TSpec) bool {
	u := t.Under()
	return u.Kind == vh.KPtr || u.Kind.IsNull()
}

// checkDescriptorPresence walks descriptor and type together.
func checkDescriptorPresence(t *vh.TSpec, d *plenccodec.Descriptor, path string) *vh.Failure {
	u := t.Under()
	for u.Kind == vh.KPtr {
		u = u.Elem.Under()
	}
	switch u.Kind {
	case vh.KStruct:
		var enc []vh.Field
		for _, f := range u.Fields {
			if _, _, ok := f.Enc(); ok {
				enc = append(enc, f)
			}
		}
		if len(d.Elements) != len(enc) {
			return vh.Fail("C09/descriptor-shape", "%s: descriptor has %d elements, struct has %d encoded fields", path, len(d.Elements), len(enc))
		}
		for i, f := range enc {
			e := &d.Elements[i]
			if e.ExplicitPresence != isPresenceType(f.Type) {
				return vh.Fail("C09/descriptor-presence", "%s.%s (%s): ExplicitPresence=%v, want %v", path, f.Name, f.Type, e.ExplicitPresence, isPresenceType(f.Type))
			}
			if fl := checkDescriptorPresence(f.Type, e, path+"."+f.Name); fl != nil {
				return fl
			}
		}
	case vh.KMap:
		if len(d.Elements) != 1 || len(d.Elements[0].Elements) != 2 {
			return vh.Fail("C09/descriptor-shape", "%s: map descriptor is not a slice of {key,value} entries", path)
		}
		k, v := &d.Elements[0].Elements[0], &d.Elements[0].Elements[1]
		if k.ExplicitPresence {
			return vh.Fail("C09/descriptor-presence", "%s: map key flagged with explicit presence", path)
		}
		if v.ExplicitPresence != isPresenceType(u.Elem) {
			return vh.Fail("C09/descriptor-presence", "%s: map value (%s) ExplicitPresence=%v, want %v", path, u.Elem, v.ExplicitPresence, isPresenceType(u.Elem))
		}
		return checkDescriptorPresence(u.Elem, v, path+"<value>")
	}
	return nil
}

// presenceScan compares presence at every position and counts present-zero pointees.
func presenceScan(t *vh.TSpec, in, out vh.Val, path string, presentZero *int) *vh.Failure {
	u := t.Under()
	switch {
	case u.Kind == vh.KPtr || u.Kind.IsNull():
		if in.Nil != out.Nil {
			return vh.Fail("C09/presence-changed", "%s (%s): absent=%v before, absent=%v after the round trip", path, t, in.Nil, out.Nil)
		}
		if !in.Nil {
			if !vh.HasNonZeroLeaf(*in.P) {
				*presentZero++
			}
			if u.Kind == vh.KPtr {
				return presenceScan(u.Elem, *in.P, *out.P, path+".*", presentZero)
			}
		}
	case u.Kind == vh.KStruct:
		for i, f := range u.Fields {
			if _, _, ok := f.Enc(); !ok {
				continue
			}
			if fl := presenceScan(f.Type, in.L[i], out.L[i], path+"."+f.Name, presentZero); fl != nil {
				return fl
			}
		}
	case u.Kind == vh.KMap && !in.Nil && !out.Nil:
		for _, kv := range in.M {
			nk := vh.Normalise(u.Key, kv.K, vh.Cfg{})
			found := false
			for _, okv := range out.M {
				if vh.Equal(u.Key, okv.K, nk) {
					found = true
					if fl := presenceScan(u.Elem, kv.V, okv.V, fmt.Sprintf("%s[%v]", path, string(kv.K.S)), presentZero); fl != nil {
						return fl
					}
				}
			}
			if !found {
				return vh.Fail("C09/map-entry-lost", "%s: entry missing after round trip", path)
			}
		}
	}
	return nil
}

var c09 = &vh.Prop[c09Case]{
	ID: "C09", Name: "presence",
	Gen: func(t *rapid.T) c09Case {
		cfg := vh.AllCfgs[rapid.IntRange(0, 3).Draw(t, "cfg")]
		ts := genPresenceStruct(t, 0, cfg)
		n := rapid.IntRange(1, 3).Draw(t, "nvals")
		vals := make([]vh.Val, n)
		for i := range vals {
			vals[i] = vh.GenVal(t, ts, vh.VProfile{Cfg: cfg})
		}
		return c09Case{Cfg: cfg, T: ts, Vals: vals}
	},
	Run: func(c c09Case, x *vh.Ctx) *vh.Failure {
		x.Label("cfg:" + c.Cfg.String())
		p := vh.NewPlenc(c.Cfg)
		codec, err := p.CodecForType(c.T.Build())
		if err != nil {
			return vh.Fail("C09/codec-error", "%v", err)
		}
		d := codec.Descriptor()
		if f := checkDescriptorPresence(c.T, &d, "T"); f != nil {
			return f
		}
		u := c.T.Under()
		for i, v := range c.Vals {
			for _, l := range vh.ValueLabels(c.T, v) {
				x.Label(l)
			}
			data, err := vh.MarshalVal(p, c.T, v)
			if err != nil {
				return vh.Fail("C09/marshal-error", "value %d: %v", i, err)
			}
			out, err := vh.UnmarshalFresh(p, c.T, data)
			if err != nil {
				return vh.Fail("C09/unmarshal-error", "value %d: % x: %v", i, data, err)
			}
			pz := 0
			if f := presenceScan(c.T, v, out, "v", &pz); f != nil {
				f.Msg += fmt.Sprintf("\nbytes % x", data)
				return f
			}
			if d := vh.Diff(c.T, out, vh.Normalise(c.T, v, c.Cfg)); d != "" {
				return vh.Fail("C09/value-changed", "value %d differs after round trip at %s (bytes % x)", i, d, data)
			}
			// bytes: a field occurs in the encoding iff it is present (pointer / null) or non-zero (plain)
			occ, err := vh.TopLevelFields(c.T, data, c.Cfg)
			if err != nil {
				return vh.Fail("C09/output-not-walkable", "value %d: % x: %v", i, data, err)
			}
			for fi, f := range u.Fields {
				idx, _, ok := f.Enc()
				if !ok {
					continue
				}
				fv := v.L[fi]
				want := !vh.RefOmit(f.Type, fv)
				fu := f.Type.Under()
				if fu.Kind == vh.KMap && !fv.Nil && len(fv.M) == 0 && f.Plenc != fmt.Sprint(idx) {
					want = false // proto-form map with no entries writes nothing
				}
				if (occ[idx] > 0) != want {
					kind := "plain"
					if isPresenceType(f.Type) {
						kind = "presence"
					}
					return vh.Fail("C09/field-occurrence", "value %d: %s field %s (index %d) occurs %d times in % x, expected present=%v", i, kind, f.Name, idx, occ[idx], data, want)
				}
			}
			if pz > 0 {
				x.NonTrivial()
				x.Label("present-zero-pointee")
			}
		}
		return nil
	},
}

func init() { registrars = append(registrars, c09.Register) }

func TestC09(t *testing.T) { c09.Check(t, vh.N(20000, 30000)) }
