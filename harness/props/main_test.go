package props

import (
	"os"
	"testing"

	"verifharness/vh"
)

func TestMain(m *testing.M) {
	code := m.Run()
	if c20Dir != "" {
		os.RemoveAll(c20Dir) // the C20 scratch directory, also when only a replay ran
	}
	vh.FlushStats()
	vh.PrintSurvey()
	os.Exit(code)
}

// TestReplay re-executes one saved case (VERIF_REPLAY) without rapid.
func TestReplay(t *testing.T) {
	registerAll()
	vh.RunReplay(t)
}

var registrars []func()

func registerAll() {
	for _, r := range registrars {
		r()
	}
}
