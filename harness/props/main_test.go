package props

import (
	"os"
	"testing"

	"verifharness/vh"
)

func TestMain(m *testing.M) {
	code := m.Run()
	vh.FlushStats()
	vh.PrintSurvey()
	os.Exit(code)
}

// TestReplay re-executes one saved case (VERIF_REPLAY) without rapid.
func TestReplay(t *testing.T) {
	registerAll()
	vh.RunReplay(t)
}

var registrars []func()

func registerAll() {
	for _, r := range registrars {
		r()
	}
}
