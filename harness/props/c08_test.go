package props

import (
	"bytes"
	"fmt"
	"reflect"
	"testing"

	"github.com/philpearl/plenc"
	"github.com/philpearl/plenc/plenccodec"
	"pgregory.net/rapid"

	"verifharness/vh"
)

// C08: a type definition yields a working codec or an error, never a panic;
// the definitions the statement lists must be refused; skipped fields are
// never encoded and never written.

type c08Case struct {
	Cfg  vh.Cfg    `json:"cfg"`
	T    *vh.TSpec `json:"type"`
	Vals []vh.Val  `json:"vals"` // for the smoke round trip when a codec is returned
}

var unsupNames = []string{"complex64", "complex128", "array", "array1", "chan", "func", "interface", "error", "uintptr", "unsafeptr"}

var hazardTags = []string{"", "abc", "-1", "-7,flat", "1.5", " 2", "2 ", "0x3", "99999999999999999999999", ",flat", "-,", "1;2", "١"}
var oddButValidTags = []string{"+3", "03", "4,"}
var hazardOpts = []string{"foo", "flat", "proto", "intern,flat", "FLAT", "omitempty"}

type dgen struct {
	t       *rapid.T
	cfg     vh.Cfg
	n       int
	hazards int
}

func (g *dgen) name() string {
	g.n++
	return fmt.Sprintf("%c%d", "ABCDEFGH"[rapid.IntRange(0, 7).Draw(g.t, "fn")], g.n)
}

func (g *dgen) okType(depth int) (*vh.TSpec, string) {
	return vh.GenFieldType(g.t, vh.Profile{Cfg: g.cfg, Null: true, Named: true, Maps: true, Opts: true, MaxDepth: 2, NoRecursive: true}, depth)
}

func (g *dgen) unsup() *vh.TSpec {
	return vh.Unsup(unsupNames[rapid.IntRange(0, len(unsupNames)-1).Draw(g.t, "unsup")])
}

// hazardType draws a type that the statement says must be refused.
func (g *dgen) hazardType() *vh.TSpec {
	g.hazards++
	str := vh.T(vh.KString)
	var h *vh.TSpec
	switch rapid.IntRange(0, 13).Draw(g.t, "hz") {
	case 0, 1:
		h = g.unsup()
	case 2:
		h = vh.PtrOf(g.unsup())
	case 3:
		h = vh.SliceOf(g.unsup())
	case 4:
		h = vh.MapOf(str, g.unsup())
	case 5:
		// comparable unsupported kinds as map keys
		h = vh.MapOf(vh.Unsup([]string{"array", "interface", "complex128", "chan", "uintptr"}[rapid.IntRange(0, 4).Draw(g.t, "ukey")]), str)
	case 6:
		// pointers (one to three levels) to a float or a named float
		ft := []*vh.TSpec{vh.T(vh.KFloat32), vh.T(vh.KFloat64), vh.NamedT("NFloat64"), vh.NamedT("NFloat32")}[rapid.IntRange(0, 3).Draw(g.t, "pf")]
		for i := rapid.IntRange(1, 3).Draw(g.t, "pfdepth"); i > 0; i-- {
			ft = vh.PtrOf(ft)
		}
		h = vh.SliceOf(ft)
	case 7:
		h = vh.SliceOf(vh.SliceOf(str))
	case 8:
		h = vh.SliceOf(vh.SliceOf(vh.StructOf(vh.F("A", 1, vh.T(vh.KInt)))))
	case 9:
		h = vh.SliceOf(vh.MapOf(str, vh.T(vh.KInt)))
	case 10:
		h = vh.MapOf(str, vh.MapOf(str, vh.T(vh.KInt)))
	case 11:
		h = vh.PtrOf(vh.MapOf(str, vh.T(vh.KInt)))
	case 12:
		h = vh.SliceOf(vh.PtrOf(vh.SliceOf(vh.T(vh.KBytes))))
	default:
		h = vh.MapOf(vh.T(vh.KInt), vh.PtrOf(vh.MapOf(str, str)))
	}
	// sometimes bury the hazard inside accepted wrappers
	for i := rapid.IntRange(0, 2).Draw(g.t, "bury"); i > 0; i-- {
		switch rapid.IntRange(0, 3).Draw(g.t, "wrap") {
		case 0:
			h = vh.StructOf(vh.F(g.name(), 1, vh.T(vh.KInt)), vh.F(g.name(), 2, h))
		case 1:
			h = vh.PtrOf(vh.StructOf(vh.F(g.name(), 3, h)))
		case 2:
			h = vh.SliceOf(vh.StructOf(vh.F(g.name(), 1, h)))
		default:
			h = vh.MapOf(vh.T(vh.KString), vh.StructOf(vh.F(g.name(), 9, h)))
		}
	}
	return h
}

func (g *dgen) structDef() *vh.TSpec {
	n := rapid.IntRange(1, 5).Draw(g.t, "nf")
	var fs []vh.Field
	used := []int{}
	for i := 0; i < n; i++ {
		idx := rapid.IntRange(0, 30).Draw(g.t, "idx")
		switch rapid.IntRange(0, 19).Draw(g.t, "idxclass") {
		case 0, 1, 2:
			// word-size and varint boundaries of the index itself
			idx = []int{31, 32, 33, 62, 63, 64, 65, 70, 127, 128, 129, 255, 256, 1000, 2047, 2048}[rapid.IntRange(0, 15).Draw(g.t, "idxb")]
		case 3:
			idx = []int{8191, 8192, 16383, 16384, 65535, 65536, 70000}[rapid.IntRange(0, 6).Draw(g.t, "idxbig")]
		}
		for contains(used, idx) {
			idx++
		}
		used = append(used, idx)
		var ft *vh.TSpec
		opt := ""
		if rapid.IntRange(0, 5).Draw(g.t, "hazardtype") == 0 {
			ft = g.hazardType()
			// an option on the field does not make an unsupported nesting acceptable
			if rapid.IntRange(0, 2).Draw(g.t, "hazardopt") == 0 {
				opt = hazardOpts[rapid.IntRange(0, len(hazardOpts)-1).Draw(g.t, "hzopt")]
			}
		} else {
			ft, opt = g.okType(1)
		}
		f := vh.F(g.name(), idx, ft)
		if opt != "" {
			f.Plenc += "," + opt
		}
		switch rapid.IntRange(0, 19).Draw(g.t, "taghz") {
		case 0: // no tag at all
			f.HasPlenc, f.Plenc = false, ""
			g.hazards++
		case 1: // malformed index
			f.Plenc = hazardTags[rapid.IntRange(0, len(hazardTags)-1).Draw(g.t, "badtag")]
			g.hazards++
		case 2: // duplicate of an earlier index
			if len(used) > 1 {
				f.Plenc = fmt.Sprint(used[rapid.IntRange(0, len(used)-2).Draw(g.t, "dup")])
				g.hazards++
			}
		case 3: // option that may have no codec
			f.Plenc = fmt.Sprintf("%d,%s", idx, hazardOpts[rapid.IntRange(0, len(hazardOpts)-1).Draw(g.t, "badopt")])
			g.hazards++
		case 4: // unusual but parsable
			ot := oddButValidTags[rapid.IntRange(0, len(oddButValidTags)-1).Draw(g.t, "odd")]
			if !contains(used, 3) && !contains(used, 4) {
				f.Plenc = ot
				used = append(used, 3, 4)
			}
		}
		fs = append(fs, f)
		// skipped fields of any type, including unsupported kinds
		if rapid.IntRange(0, 3).Draw(g.t, "skipped") == 0 {
			var st *vh.TSpec
			if rapid.Bool().Draw(g.t, "skipunsup") {
				st = g.unsup()
			} else {
				st, _ = g.okType(2)
			}
			g.n++
			if rapid.Bool().Draw(g.t, "skipkind") {
				fs = append(fs, vh.Field{Name: fmt.Sprintf("x%d", g.n), Type: st, Unexported: true, HasPlenc: rapid.Bool().Draw(g.t, "xtag"), Plenc: "7"})
			} else {
				fs = append(fs, vh.Field{Name: fmt.Sprintf("S%d", g.n), Type: st, Plenc: "-", HasPlenc: true})
			}
		}
	}
	return vh.StructOf(fs...)
}

func contains(xs []int, x int) bool {
	for _, y := range xs {
		if y == x {
			return true
		}
	}
	return false
}

func genDefinition(t *rapid.T, cfg vh.Cfg) *vh.TSpec {
	g := &dgen{t: t, cfg: cfg}
	switch rapid.IntRange(0, 9).Draw(t, "topkind") {
	case 0:
		return vh.NamedT(vh.BadNames[rapid.IntRange(0, len(vh.BadNames)-1).Draw(t, "bad")])
	case 1:
		return g.hazardType()
	default:
		return g.structDef()
	}
}

// withoutSkipped removes unexported and "-" fields at the top level.
func withoutSkipped(t *vh.TSpec) (*vh.TSpec, []int) {
	u := t.Under()
	var fs []vh.Field
	var keep []int
	for i, f := range u.Fields {
		if f.Unexported || f.Plenc == "-" {
			continue
		}
		fs = append(fs, f)
		keep = append(keep, i)
	}
	return vh.StructOf(fs...), keep
}

func askCodec(p *plenc.Plenc, rt reflect.Type) (c plenccodec.Codec, err error) {
	return p.CodecForType(rt)
}

var c08 = &vh.Prop[c08Case]{
	ID: "C08", Name: "definitions",
	Gen: func(t *rapid.T) c08Case {
		cfg := vh.AllCfgs[rapid.IntRange(0, 3).Draw(t, "cfg")]
		ts := genDefinition(t, cfg)
		c := c08Case{Cfg: cfg, T: ts}
		if bad, _ := vh.MustError(ts); !bad {
			for i := 0; i < 2; i++ {
				c.Vals = append(c.Vals, vh.GenVal(t, ts, vh.VProfile{Cfg: cfg, Small: true}))
			}
		}
		return c
	},
	Run: func(c c08Case, x *vh.Ctx) *vh.Failure {
		x.Label("cfg:" + c.Cfg.String())
		p := vh.NewPlenc(c.Cfg)
		str := vh.T(vh.KString)
		// history: T, *T, []T, struct{X T}, map[string]T, and T again - all on one instance
		history := []struct {
			what string
			t    *vh.TSpec
		}{
			{"T", c.T}, {"*T", vh.PtrOf(c.T)}, {"[]T", vh.SliceOf(c.T)},
			{"struct{X T}", vh.StructOf(vh.F("X", 1, c.T))}, {"map[string]T", vh.MapOf(str, c.T)}, {"T again", c.T},
		}
		tBad, tWhy := vh.MustError(c.T)
		x.LabelIf(tBad, "must-error:"+tWhy)
		x.LabelIf(!tBad, "may-work")
		for _, h := range history {
			if h.t.Kind == vh.KSlice && h.t.Elem.Under().Kind == vh.KUint8 && h.t.Elem.Kind != vh.KNamed {
				continue // []uint8 is []byte
			}
			bad, why := vh.MustError(h.t)
			rt := h.t.Build()
			codec, err := askCodec(p, rt)
			if err != nil && codec != nil {
				return vh.Fail("C08/error-and-codec", "%s: both an error (%v) and a codec", h.what, err)
			}
			if bad && err == nil {
				return vh.Fail("C08/accepted-invalid-definition/"+why, "%s (%s): CodecForType returned a codec although the definition must be refused (%s)", h.what, h.t, why)
			}
			if bad && err.Error() == "" {
				return vh.Fail("C08/empty-error", "%s: error with empty message", h.what)
			}
			x.LabelIf(!bad && err != nil, "refused-though-not-required")
		}
		if tBad || len(c.Vals) == 0 {
			if tBad {
				x.NonTrivial()
			}
			return nil
		}
		codec, err := askCodec(p, c.T.Build())
		if err != nil {
			return nil // not required to work; C01 covers the accepted profile
		}
		_ = codec
		// (iii) the codec it handed out works: smoke round trip + walk
		for i, v := range c.Vals {
			if c.Cfg.ProtoArrays && c.T.Under().Kind != vh.KStruct {
				break // repeated form has no top-level framing
			}
			data, err := vh.MarshalVal(p, c.T, v)
			if err != nil {
				return vh.Fail("C08/codec-marshal-error", "value %d: %v", i, err)
			}
			if _, err := vh.Canon(c.T, data, c.Cfg, nil); err != nil {
				return vh.Fail("C08/codec-output-not-walkable", "value %d: % x: %v", i, data, err)
			}
			got, err := vh.UnmarshalFresh(p, c.T, data)
			if err != nil {
				return vh.Fail("C08/codec-unmarshal-error", "value %d: % x: %v", i, data, err)
			}
			if d := vh.Diff(c.T, got, vh.Normalise(c.T, v, c.Cfg)); d != "" {
				return vh.Fail("C08/codec-corrupts-data", "value %d: round trip through the returned codec differs at %s (type %s, bytes % x)", i, d, c.T, data)
			}
		}
		// (iv) skipped fields are never encoded and never written
		u := c.T.Under()
		if u.Kind == vh.KStruct && len(c.Vals) >= 2 {
			t2, keep := withoutSkipped(c.T)
			if len(keep) < len(u.Fields) {
				x.Label("has-skipped-fields")
				v := c.Vals[0]
				v2 := vh.Val{L: make([]vh.Val, len(keep))}
				for j, i := range keep {
					v2.L[j] = v.L[i]
				}
				d1, err1 := vh.MarshalVal(p, c.T, v)
				d2, err2 := vh.MarshalVal(p, t2, v2)
				if err1 != nil || err2 != nil {
					return vh.Fail("C08/codec-marshal-error", "%v %v", err1, err2)
				}
				c1, _ := vh.Canon(c.T, d1, c.Cfg, nil)
				c2, _ := vh.Canon(t2, d2, c.Cfg, nil)
				if !bytes.Equal(c1, c2) {
					return vh.Fail("C08/skipped-field-encoded", "encoding with skipped fields % x differs from the encoding without them % x", d1, d2)
				}
				// decode value 1 into a target pre-filled with value 0: skipped fields keep their content
				target := vh.ToReflect(c.T, v)
				before := vh.FromReflect(c.T, target)
				d3, err := vh.MarshalVal(p, c.T, c.Vals[1])
				if err != nil {
					return vh.Fail("C08/codec-marshal-error", "%v", err)
				}
				if err := vh.UnmarshalInto(p, target, d3); err != nil {
					return vh.Fail("C08/codec-unmarshal-error", "%v", err)
				}
				after := vh.FromReflect(c.T, target)
				for i, f := range u.Fields {
					if f.Unexported || f.Plenc == "-" {
						if d := vh.Diff(f.Type, after.L[i], before.L[i]); d != "" {
							return vh.Fail("C08/skipped-field-written", "skipped field %s changed by Unmarshal at %s", f.Name, d)
						}
					}
				}
				x.NonTrivial()
			}
		}
		return nil
	},
}

func init() { registrars = append(registrars, c08.Register) }

func TestC08(t *testing.T) { c08.Check(t, vh.N(20000, 30000)) }
