package props

import (
	"bytes"
	"fmt"
	"os"
	"reflect"
	"runtime"
	"runtime/metrics"
	"strconv"
	"sync"
	"testing"

	"github.com/philpearl/plenc"
	"github.com/philpearl/plenc/plenccodec"
	"pgregory.net/rapid"

	"verifharness/vh"
)

// C04: decoding arbitrary bytes is total — value or error; never a panic or
// fault, never a hang, never a read outside the input, never an allocation
// beyond a fixed multiple (depending on the type) of the input length.

type c04Case struct {
	Cfg  vh.Cfg    `json:"cfg"`
	T    *vh.TSpec `json:"type"`
	Data []byte    `json:"data"`
	Src  string    `json:"src,omitempty"` // how the input was made (label only)
}

func leafStruct() *vh.TSpec {
	return vh.StructOf(
		vh.F("B", 1, vh.T(vh.KBool)), vh.F("I", 2, vh.T(vh.KInt)), vh.F("I8", 3, vh.T(vh.KInt8)), vh.F("U", 4, vh.T(vh.KUint32)),
		vh.F("F32", 5, vh.T(vh.KFloat32)), vh.F("F64", 6, vh.T(vh.KFloat64)), vh.F("S", 7, vh.T(vh.KString)), vh.F("Y", 8, vh.T(vh.KBytes)),
		vh.F("T", 9, vh.T(vh.KTime)), vh.FOpt("Fl", 10, "flat", vh.T(vh.KInt64)), vh.FOpt("In", 11, "intern", vh.T(vh.KString)))
}

func ab() *vh.TSpec { return vh.StructOf(vh.F("A", 1, vh.T(vh.KInt)), vh.F("B", 2, vh.T(vh.KString))) }

// c04Fixed is the catalog of representative target types.
func c04Fixed() []*vh.TSpec {
	s := vh.SliceOf
	m := vh.MapOf
	p := vh.PtrOf
	k := vh.T
	protoS := vh.StructOf(vh.FOpt("Ss", 1, "proto", s(k(vh.KString))), vh.FOpt("M", 2, "proto", m(k(vh.KString), k(vh.KInt))),
		vh.FOpt("Ps", 3, "proto", s(p(ab()))), vh.F("X", 4, k(vh.KInt)))
	nulls := vh.StructOf(vh.F("I", 1, k(vh.KNullInt)), vh.F("B", 2, k(vh.KNullBool)), vh.F("F", 3, k(vh.KNullFloat)),
		vh.FOpt("S", 4, "intern", k(vh.KNullString)), vh.F("T", 5, k(vh.KNullTime)))
	ptrs := vh.StructOf(vh.F("I", 1, p(k(vh.KInt))), vh.F("S", 2, p(k(vh.KString))), vh.F("St", 3, p(ab())), vh.F("Sl", 4, p(s(k(vh.KInt)))),
		vh.F("T", 5, p(k(vh.KTime))), vh.F("F", 6, p(k(vh.KFloat32))))
	nested := vh.StructOf(vh.F("In", 1, vh.StructOf(vh.F("In2", 1, vh.StructOf(vh.F("Ss", 1, s(k(vh.KString))), vh.F("M", 2, m(k(vh.KInt), ab())))), vh.F("Z", 2, k(vh.KInt)))), vh.F("Q", 17, k(vh.KString)))
	bigIdx := vh.StructOf(vh.F("A", 1, k(vh.KInt)), vh.F("B", 8192, k(vh.KString)), vh.F("C", 70000, s(k(vh.KInt))), vh.F("D", 300, ab()))
	wide := vh.StructOf(vh.F("F1", 1, k(vh.KUint64)), vh.F("F2", 12, k(vh.KUint64)), vh.F("F3", 3, k(vh.KInt64)), vh.F("F4", 11, k(vh.KString)),
		vh.F("F5", 5, k(vh.KFloat64)), vh.F("F6", 10, k(vh.KBool)), vh.F("F7", 7, k(vh.KUint64)), vh.F("F8", 9, s(k(vh.KInt))), vh.F("F9", 8, ab()),
		vh.F("F10", 6, k(vh.KTime)), vh.F("F11", 4, m(k(vh.KString), k(vh.KInt))), vh.F("F12", 2, k(vh.KUint64)))
	return []*vh.TSpec{
		bigIdx, wide,
		k(vh.KInt), k(vh.KUint8), k(vh.KBool), k(vh.KFloat32), k(vh.KFloat64), k(vh.KString), k(vh.KBytes), k(vh.KTime),
		s(k(vh.KInt)), s(k(vh.KBool)), s(k(vh.KUint32)), s(p(k(vh.KInt))), s(k(vh.KFloat64)), s(k(vh.KFloat32)),
		s(k(vh.KString)), s(k(vh.KBytes)), s(k(vh.KTime)), s(s(k(vh.KInt))), s(ab()), s(p(ab())), s(p(k(vh.KString))),
		m(k(vh.KString), k(vh.KInt)), m(k(vh.KInt), k(vh.KString)), m(vh.StructOf(vh.F("A", 1, k(vh.KInt)), vh.F("B", 2, k(vh.KInt))), k(vh.KString)),
		m(k(vh.KString), p(k(vh.KInt))), m(k(vh.KString), s(k(vh.KString))), m(k(vh.KString), ab()), m(k(vh.KFloat64), p(ab())),
		leafStruct(), nested, protoS, nulls, ptrs,
		vh.NamedT("Tree"), vh.NamedT("List"), vh.NamedT("MutA"), vh.NamedT("MapRec"), vh.NamedT("Mid"), vh.NamedT("NBytes"),
		vh.NamedT("WithJSON"), vh.NamedT("PairIS"), vh.NamedT("Embeds"), vh.NamedT("PtrSliceRec"),
	}
}

type c04Target struct {
	rt      reflect.Type
	codec   plenccodec.Codec
	desc    *plenccodec.Descriptor
	maxElem uintptr
}

var (
	c04Mu      sync.Mutex
	c04Targets = map[string]*c04Target{}
	c04Plencs  = map[vh.Cfg]*plenc.Plenc{}
	c04NTypes  int
)

// maxElemSize: largest slice element / pointee / map entry / value size reachable.
func maxElemSize(rt reflect.Type, seen map[reflect.Type]bool) uintptr {
	if seen[rt] {
		return 0
	}
	seen[rt] = true
	m := rt.Size()
	up := func(x uintptr) {
		if x > m {
			m = x
		}
	}
	switch rt.Kind() {
	case reflect.Ptr, reflect.Slice:
		up(maxElemSize(rt.Elem(), seen))
	case reflect.Map:
		up(rt.Key().Size() + rt.Elem().Size() + 16)
		up(maxElemSize(rt.Key(), seen))
		up(maxElemSize(rt.Elem(), seen))
	case reflect.Struct:
		for i := 0; i < rt.NumField(); i++ {
			up(maxElemSize(rt.Field(i).Type, seen))
		}
	}
	return m
}

func c04Target4(cfg vh.Cfg, t *vh.TSpec) (*plenc.Plenc, *c04Target, error) {
	c04Mu.Lock()
	defer c04Mu.Unlock()
	p := c04Plencs[cfg]
	if p == nil || c04NTypes > 20000 {
		// bound the memory pinned by the registry of the shared instance
		p = vh.NewPlenc(cfg)
		c04Plencs = map[vh.Cfg]*plenc.Plenc{cfg: p}
		c04Targets = map[string]*c04Target{}
		c04NTypes = 0
	}
	key := cfg.String() + "|" + t.String()
	if tg, ok := c04Targets[key]; ok {
		return p, tg, nil
	}
	rt := t.Build()
	codec, err := p.CodecForType(rt)
	if err != nil {
		return nil, nil, err
	}
	tg := &c04Target{rt: rt, codec: codec, maxElem: maxElemSize(rt, map[reflect.Type]bool{})}
	if !t.IsRecursive() { // Descriptor() of a recursive type does not return (known finding, see C14)
		d := codec.Descriptor()
		tg.desc = &d
	}
	c04Targets[key] = tg
	c04NTypes++
	return p, tg, nil
}

var allocSample = []metrics.Sample{{Name: "/gc/heap/allocs:bytes"}}

func allocBytes() uint64 {
	metrics.Read(allocSample)
	return allocSample[0].Value.Uint64()
}

// exactAlloc measures the bytes allocated by fn exactly (stop-the-world
// statistics; slow, used only to confirm a suspicion).
func exactAlloc(fn func()) uint64 {
	var m0, m1 runtime.MemStats
	runtime.ReadMemStats(&m0)
	fn()
	runtime.ReadMemStats(&m1)
	return m1.TotalAlloc - m0.TotalAlloc
}

// withTail returns data placed in a larger buffer followed by fill bytes.
func withTail(data []byte, fill byte, extra int) []byte {
	b := make([]byte, len(data)+extra)
	copy(b, data)
	for i := len(data); i < len(b); i++ {
		b[i] = fill + byte(i)
	}
	return b[:len(data)]
}

func c04Run(c c04Case, x *vh.Ctx, contain bool) *vh.Failure {
	p, tg, err := c04Target4(c.Cfg, c.T)
	if err != nil {
		return vh.Fail("harness/c04-type", "target type not accepted: %v", err)
	}
	data := c.Data
	exact := make([]byte, len(data)) // cap == len: nothing readable beyond the input
	copy(exact, data)
	limit := uint64(64<<10) + uint64(8*tg.maxElem+64)*uint64(len(data))

	target := reflect.New(tg.rt)
	a0 := allocBytes()
	err1 := p.Unmarshal(exact, target.Interface())
	used := allocBytes() - a0
	if !bytes.Equal(exact, data) {
		return vh.Fail("C04/input-modified", "Unmarshal changed its input: % x -> % x", data, exact)
	}
	if used > limit {
		// the cheap counter attributes per-P cached statistics in chunks: confirm
		// with an exact measurement of the same (deterministic) decode
		t2 := reflect.New(tg.rt)
		used = exactAlloc(func() { p.Unmarshal(exact, t2.Interface()) })
		if used > limit {
			if c.T.IsRecursive() && err1 != nil && used <= uint64(64<<10)+64*uint64(len(data))*uint64(len(data)) {
				// a rejected input that nests a recursive type once per byte or two: every level wraps the error of the
				// level below in a longer message, so the total grows with the square of the depth (known finding F29).
				// Anything beyond that quadratic envelope, or on a non-recursive type, is reported as a plain blow-up.
				return vh.Fail("C04/alloc-blowup/error-chain-of-recursive-type", "Unmarshal of %d bytes into %s failed (%.80s...) after allocating %d bytes (bound %d = 64KiB + %d*len)", len(data), c.T, err1.Error(), used, limit, 8*tg.maxElem+64)
			}
			return vh.Fail("C04/alloc-blowup", "Unmarshal of %d bytes into %s allocated %d bytes (bound %d = 64KiB + %d*len)", len(data), c.T, used, limit, 8*tg.maxElem+64)
		}
	}
	if contain {
		// read containment: same bytes followed by different garbage must give the same outcome
		got1 := vh.Val{}
		if err1 == nil {
			got1 = vh.FromReflect(c.T, target.Elem())
		}
		for _, fill := range []byte{0x00, 0xFF, 0x81} {
			t2 := reflect.New(tg.rt)
			err2 := p.Unmarshal(withTail(data, fill, 24), t2.Interface())
			if (err1 == nil) != (err2 == nil) {
				return vh.Fail("C04/reads-outside-input", "outcome depends on bytes beyond len: cap==len gives err=%v, with trailing %#x garbage err=%v", err1, fill, err2)
			}
			if err1 == nil {
				if d := vh.Diff(c.T, vh.FromReflect(c.T, t2.Elem()), got1); d != "" {
					return vh.Fail("C04/reads-outside-input", "decoded value depends on bytes beyond len (fill %#x) at %s", fill, d)
				}
			}
		}
	}
	ok2 := false
	if tg.desc == nil {
		x.Exclude(findingDescriptorRecursive) // descriptor half skipped for recursive types (open finding F10)
	}
	if tg.desc != nil {
		var out plenccodec.JSONOutput
		a0 = allocBytes()
		err2 := tg.desc.Read(&out, exact)
		res := out.Done()
		used = allocBytes() - a0
		if !bytes.Equal(exact, data) {
			return vh.Fail("C04/input-modified", "Descriptor.Read changed its input")
		}
		dlimit := uint64(64<<10) + 512*uint64(len(data))
		if used > dlimit {
			used = exactAlloc(func() {
				var o2 plenccodec.JSONOutput
				tg.desc.Read(&o2, exact)
				o2.Done()
			})
		}
		if used > dlimit {
			return vh.Fail("C04/alloc-blowup-descriptor", "Descriptor.Read of %d bytes (%s) allocated %d bytes (bound %d), output %d bytes", len(data), c.T, used, dlimit, len(res))
		}
		ok2 = err2 == nil
		// the same outputter again after Reset - whatever the walk above left behind (it may have been
		// rejected half-way): same outcome, same bytes, and an empty input still gives a document
		first := append([]byte{}, res...)
		out.Reset()
		err3 := tg.desc.Read(&out, exact)
		res3 := out.Done()
		if (err3 == nil) != (err2 == nil) || (err2 == nil && !bytes.Equal(res3, first)) {
			return vh.Fail("C04/descriptor-outputter-reuse", "second walk of the same bytes with the same outputter (Reset in between): err %v / %q, first walk err %v / %q", err3, res3, err2, first)
		}
		out.Reset()
		var fresh plenccodec.JSONOutput
		errE1, errE2 := tg.desc.Read(&out, nil), tg.desc.Read(&fresh, nil)
		if e1, e2 := out.Done(), fresh.Done(); (errE1 == nil) != (errE2 == nil) || !bytes.Equal(e1, e2) {
			return vh.Fail("C04/descriptor-outputter-reuse", "walk of empty input with a re-used outputter: err %v / %q, with a new one err %v / %q", errE1, e1, errE2, e2)
		}
	}
	x.LabelIf(err1 == nil, "unmarshal:ok")
	x.LabelIf(err1 != nil, "unmarshal:error")
	x.LabelIf(ok2, "descriptor:ok")
	if c.Src != "" {
		x.Label("src:" + c.Src)
	}
	if len(data) >= 2 && (err1 == nil || c.Src == "mutated" || c.Src == "prefix") {
		x.NonTrivial()
	}
	return nil
}

var c04Enum = &vh.Prop[c04Case]{
	ID: "C04", Name: "exhaustive-short",
	Run: func(c c04Case, x *vh.Ctx) *vh.Failure { return c04Run(c, x, false) },
}

var c04Alphabet = []byte{0x00, 0x01, 0x02, 0x03, 0x05, 0x07, 0x08, 0x0a, 0x0b, 0x0d, 0x10, 0x12, 0x1a, 0x7f, 0x80, 0xff}

// TestC04Exhaustive: every string of length <= 3 (quick) / <= 5 (thorough,
// sharded) over the 16-symbol alphabet, against every catalog type.
func TestC04Exhaustive(t *testing.T) {
	st := c04Enum.Stats()
	types := c04Fixed()
	shard, _ := strconv.Atoi(os.Getenv("VERIF_SHARD"))
	shards, _ := strconv.Atoi(os.Getenv("VERIF_SHARDS"))
	if shards <= 0 {
		shards = 1
	}
	maxLen := 4
	if vh.Thorough() {
		maxLen = 5
	}
	var total, nontrivial int64
	buf := make([]byte, maxLen)
	for ti, ts := range types {
		if ti%shards != shard {
			continue
		}
		for _, cfg := range []vh.Cfg{{}, bothOn} {
			var rec func(depth, n int)
			rec = func(depth, n int) {
				if depth == n {
					c := c04Case{Cfg: cfg, T: ts, Data: buf[:n:n]}
					if f := c04Enum.Try(c); f != nil {
						t.Fatalf("C04/exhaustive-short %s", f.Error())
					}
					total++
					if n >= 2 {
						nontrivial++
					}
					return
				}
				for _, b := range c04Alphabet {
					buf[depth] = b
					rec(depth+1, n)
				}
			}
			for n := 0; n <= maxLen; n++ {
				rec(0, n)
			}
		}
	}
	st.AddEnumerated(total, nontrivial)
	st.AddSample(map[string]any{"type": types[shard%len(types)].String(), "inputs": fmt.Sprintf("every string of length 0..%d over % x", maxLen, c04Alphabet)})
	st.SetExhaustive(fmt.Sprintf("short-strings-shard-%d", shard), map[string]any{"exhaustive": true, "alphabet": fmt.Sprintf("% x", c04Alphabet),
		"max_len": maxLen, "types": len(types), "configs": 2, "decodes": total})
}

var hostileVarints = [][]byte{
	{0x80}, {0xff}, {0x80, 0x80}, {0xff, 0xff, 0xff, 0xff, 0x0f}, {0x80, 0x80, 0x80, 0x80, 0x08}, {0xff, 0xff, 0xff, 0xff, 0x07},
	{0x80, 0x80, 0x80, 0x80, 0x80, 0x80, 0x80, 0x80, 0x80, 0x01},       // 2^63
	{0xff, 0xff, 0xff, 0xff, 0xff, 0xff, 0xff, 0xff, 0xff, 0x01},       // 2^64-1
	{0xff, 0xff, 0xff, 0xff, 0xff, 0xff, 0xff, 0xff, 0x7f},             // 2^63-1
	{0x80, 0x80, 0x80, 0x80, 0x80, 0x80, 0x80, 0x80, 0x80, 0x80, 0x01}, // over-long
	{0xff, 0xff, 0xff, 0xff, 0xff, 0xff, 0xff, 0xff, 0xff, 0xff, 0xff, 0x01},
	{0x80, 0x01}, {0xff, 0x7f}, {0x7f}, {0x00}, {0x01}, {0xe8, 0x07}, {0xa0, 0x8d, 0x06}, {0x80, 0x80, 0x40},
}

func mutate(t *rapid.T, enc []byte) []byte {
	out := append([]byte{}, enc...)
	n := rapid.IntRange(1, 3).Draw(t, "nmut")
	for i := 0; i < n; i++ {
		pos := 0
		if len(out) > 0 {
			pos = rapid.IntRange(0, len(out)-1).Draw(t, "pos")
		}
		switch rapid.IntRange(0, 7).Draw(t, "mut") {
		case 0: // truncate
			out = out[:pos]
		case 1: // flip a bit
			if len(out) > 0 {
				out[pos] ^= 1 << rapid.IntRange(0, 7).Draw(t, "bit")
			}
		case 2: // hostile byte
			if len(out) > 0 {
				out[pos] = c04Alphabet[rapid.IntRange(0, len(c04Alphabet)-1).Draw(t, "hb")]
			}
		case 3: // overwrite with a hostile varint
			hv := hostileVarints[rapid.IntRange(0, len(hostileVarints)-1).Draw(t, "hv")]
			out = append(append(append([]byte{}, out[:pos]...), hv...), out[min(len(out), pos+1):]...)
		case 4: // insert a hostile varint
			hv := hostileVarints[rapid.IntRange(0, len(hostileVarints)-1).Draw(t, "hvi")]
			out = append(append(append([]byte{}, out[:pos]...), hv...), out[pos:]...)
		case 5: // change the wire type bits
			if len(out) > 0 {
				out[pos] ^= byte(rapid.IntRange(1, 7).Draw(t, "wtx"))
			}
		case 6: // splice a chunk from elsewhere
			if len(out) > 1 {
				from := rapid.IntRange(0, len(out)-1).Draw(t, "from")
				l := rapid.IntRange(1, min(8, len(out)-from)).Draw(t, "sl")
				chunk := append([]byte{}, out[from:from+l]...)
				out = append(append(append([]byte{}, out[:pos]...), chunk...), out[pos:]...)
			}
		default: // append garbage
			out = append(out, rapid.SliceOfN(rapid.Byte(), 1, 6).Draw(t, "tail")...)
		}
	}
	if len(out) > 1<<16 {
		out = out[:1<<16]
	}
	return out
}

func genC04Type(t *rapid.T, cfg vh.Cfg) *vh.TSpec {
	fixed := c04Fixed()
	if rapid.IntRange(0, 2).Draw(t, "fixed") != 0 {
		ts := fixed[rapid.IntRange(0, len(fixed)-1).Draw(t, "ft")]
		if cfg.ProtoArrays && ts.Under().Kind != vh.KStruct {
			return leafStruct()
		}
		return ts
	}
	return vh.GenType(t, acceptedProfile(cfg))
}

var c04Mut = &vh.Prop[c04Case]{
	ID: "C04", Name: "mutated-encodings",
	Gen: func(t *rapid.T) c04Case {
		cfg := vh.AllCfgs[rapid.IntRange(0, 3).Draw(t, "cfg")]
		ts := genC04Type(t, cfg)
		v := vh.GenVal(t, ts, vh.VProfile{Cfg: cfg})
		enc := vh.RefEncode(ts, v, cfg)
		c := c04Case{Cfg: cfg, T: ts}
		switch rapid.IntRange(0, 9).Draw(t, "src") {
		case 0:
			c.Data, c.Src = enc, "valid"
		case 1, 2:
			cut := 0
			if len(enc) > 0 {
				cut = rapid.IntRange(0, len(enc)).Draw(t, "cut")
			}
			c.Data, c.Src = enc[:cut], "prefix"
		case 3:
			c.Data, c.Src = rapid.SliceOfN(rapid.Byte(), 0, 40).Draw(t, "raw"), "random"
		default:
			c.Data, c.Src = mutate(t, enc), "mutated"
		}
		return c
	},
	Run: func(c c04Case, x *vh.Ctx) *vh.Failure { return c04Run(c, x, true) },
}

// all prefixes of a valid encoding (a plain loop inside one rapid case)
type c04PrefCase struct {
	Cfg vh.Cfg    `json:"cfg"`
	T   *vh.TSpec `json:"type"`
	V   vh.Val    `json:"v"`
}

var c04Pref = &vh.Prop[c04PrefCase]{
	ID: "C04", Name: "all-prefixes",
	Gen: func(t *rapid.T) c04PrefCase {
		cfg := vh.AllCfgs[rapid.IntRange(0, 3).Draw(t, "cfg")]
		ts := genC04Type(t, cfg)
		return c04PrefCase{Cfg: cfg, T: ts, V: vh.GenVal(t, ts, vh.VProfile{Cfg: cfg, Small: true})}
	},
	Run: func(c c04PrefCase, x *vh.Ctx) *vh.Failure {
		enc := vh.RefEncode(c.T, c.V, c.Cfg)
		if len(enc) > 300 {
			enc = enc[:300]
		}
		for cut := 0; cut <= len(enc); cut++ {
			if f := c04Run(c04Case{Cfg: c.Cfg, T: c.T, Data: enc[:cut:cut], Src: "prefix"}, &vh.Ctx{}, false); f != nil {
				f.Msg = fmt.Sprintf("prefix of %d/%d bytes (% x): %s", cut, len(enc), enc[:cut], f.Msg)
				return f
			}
		}
		x.Label(fmt.Sprintf("prefixes:%d", (len(enc)+9)/10*10))
		if len(enc) >= 4 {
			x.NonTrivial()
		}
		return nil
	},
}

func init() { registrars = append(registrars, c04Enum.Register, c04Mut.Register, c04Pref.Register) }

func TestC04Mutated(t *testing.T)  { c04Mut.Check(t, vh.N(30000, 60000)) }
func TestC04Prefixes(t *testing.T) { c04Pref.Check(t, vh.N(3000, 15000)) }
