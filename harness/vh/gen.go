package vh

import (
	"fmt"
	"math"

	"pgregory.net/rapid"
)

// Profile states which type definitions are in a property's domain.
type Profile struct {
	Cfg         Cfg
	MaxDepth    int  // nesting budget (default 3)
	Null        bool // null.X types in field / map-value positions
	Named       bool // catalog named types
	Maps        bool
	TopStruct   bool // top level must be a struct
	Opts        bool // flat / intern / proto tag options
	JSONTags    bool
	Skipped     bool // unexported and "-" fields
	NoRecursive bool // exclude recursive catalog types
	// ProtoMaps: every map field is tagged proto (C12 standard-protobuf domain)
	ProtoMaps bool
	// NoIndexZero: field indexes start at 1 (protobuf forbids 0)
	NoIndexZero bool
	// FloatKeys allowed
	NoFloatKeys bool
	// NoIdleOpts: do not place options that plenc accepts but ignores (flat on a slice, intern on a non-string)
	NoIdleOpts bool
	// MaxFields per struct (default 6)
	MaxFields int
}

func (p Profile) maxDepth() int {
	if p.MaxDepth == 0 {
		return 3
	}
	return p.MaxDepth
}

// deepDepth is used for the occasional deeply nested type.
const deepDepth = 7

func (p Profile) maxFields() int {
	if p.MaxFields == 0 {
		return 6
	}
	return p.MaxFields
}

type tgen struct {
	t     *rapid.T
	p     Profile
	nodes int
	nameN int
}

var varintLeaves = []Kind{KBool, KInt, KInt8, KInt16, KInt32, KInt64, KUint, KUint16, KUint32, KUint64}
var signedLeaves = []Kind{KInt, KInt8, KInt16, KInt32, KInt64}
var floatLeaves = []Kind{KFloat32, KFloat64}
var lenLeaves = []Kind{KString, KBytes, KTime}
var nullLeaves = []Kind{KNullInt, KNullBool, KNullFloat, KNullString, KNullTime}

var namedVarint = []string{"NInt", "NInt8", "NInt32", "NInt64", "NUint", "NUint16", "NUint8", "NBool"}
var namedFloat = []string{"NFloat64", "NFloat32"}
var namedLen = []string{"NString", "NBytes", "NInts"}                      // length-delimited wire type
var namedBig = []string{"Blk64", "Big192", "Big192", "Big1024", "Big1032"} // comparable, 64..1032 bytes
var namedStructs = []string{"Leaf", "Mid", "PairIS", "Embeds", "EmbedsPtr", "WithJSON"}
var namedRecursive = []string{"Tree", "List", "MutA", "MutB", "Cyc1", "Cyc2", "Cyc3", "MapRec", "PtrSliceRec", "PairLeafTree", "TreeP", "TagMutA", "TagMutB"}

func pick[X any](t *rapid.T, label string, xs []X) X {
	return xs[rapid.IntRange(0, len(xs)-1).Draw(t, label)]
}

// weighted draws an index according to weights.
func weighted(t *rapid.T, label string, weights ...int) int {
	total := 0
	for _, w := range weights {
		total += w
	}
	r := rapid.IntRange(0, total-1).Draw(t, label)
	for i, w := range weights {
		if r < w {
			return i
		}
		r -= w
	}
	return len(weights) - 1
}

// GenType draws a top-level type.
func GenType(t *rapid.T, p Profile) *TSpec {
	if p.MaxDepth == 0 && rapid.IntRange(0, 19).Draw(t, "deep") == 0 {
		p.MaxDepth = deepDepth
		p.MaxFields = 2 // deep but narrow
	}
	g := &tgen{t: t, p: p}
	if p.TopStruct {
		return g.structT(0)
	}
	switch weighted(t, "top", 10, 2, 2, 2) {
	case 0:
		return g.structT(0)
	case 1:
		return g.leaf(true)
	case 2:
		if !p.Cfg.ProtoArrays {
			return g.slice(0)
		}
		return g.packedSlice()
	default:
		if p.Maps {
			return g.mapT(0)
		}
		return g.structT(0)
	}
}

func (g *tgen) varint() *TSpec {
	if g.p.Named && rapid.IntRange(0, 5).Draw(g.t, "nv") == 0 {
		return NamedT(pick(g.t, "nvn", namedVarint))
	}
	return T(pick(g.t, "vk", varintLeaves))
}

func (g *tgen) float() *TSpec {
	if g.p.Named && rapid.IntRange(0, 5).Draw(g.t, "nf") == 0 {
		return NamedT(pick(g.t, "nfn", namedFloat))
	}
	return T(pick(g.t, "fk", floatLeaves))
}

func (g *tgen) lenLeaf() *TSpec {
	if g.p.Named && rapid.IntRange(0, 6).Draw(g.t, "nl") == 0 {
		return NamedT(pick(g.t, "nln", namedLen))
	}
	return T(pick(g.t, "lk", lenLeaves))
}

func (g *tgen) leaf(allowUint8 bool) *TSpec {
	switch weighted(g.t, "leaf", 5, 2, 4) {
	case 0:
		if allowUint8 && rapid.IntRange(0, 9).Draw(g.t, "u8") == 0 {
			return T(KUint8)
		}
		return g.varint()
	case 1:
		return g.float()
	default:
		return g.lenLeaf()
	}
}

func (g *tgen) namedStruct() *TSpec {
	if rapid.IntRange(0, 11).Draw(g.t, "bigst") == 0 {
		return NamedT(pick(g.t, "nbg", namedBig))
	}
	if !g.p.NoRecursive && rapid.IntRange(0, 2).Draw(g.t, "rec") == 0 {
		return NamedT(pick(g.t, "nrs", namedRecursive))
	}
	return NamedT(pick(g.t, "ns", namedStructs))
}

func (g *tgen) structLike(depth int) *TSpec {
	if g.p.Named && rapid.IntRange(0, 3).Draw(g.t, "nst") == 0 {
		return g.namedStruct()
	}
	return g.structT(depth)
}

func (g *tgen) packedSlice() *TSpec {
	switch weighted(g.t, "pk", 4, 2, 1) {
	case 0:
		return SliceOf(g.varint())
	case 1:
		return SliceOf(g.float())
	default:
		return SliceOf(PtrOf(g.varint()))
	}
}

// elem draws a legal slice element type.
func (g *tgen) elem(depth int) *TSpec {
	g.nodes++
	deep := depth < g.p.maxDepth() && g.nodes < 40
	ws := []int{4, 1, 2, 4, 0, 0, 0}
	if deep {
		ws = []int{4, 1, 2, 4, 4, 2, 2}
	}
	switch weighted(g.t, "elem", ws...) {
	case 0:
		return g.varint()
	case 1:
		return PtrOf(g.varint())
	case 2:
		return g.float()
	case 3:
		return g.lenLeaf()
	case 4:
		return g.structLike(depth + 1)
	case 5:
		// pointer to a length-delimited thing
		if rapid.Bool().Draw(g.t, "ps") {
			return PtrOf(g.structLike(depth + 1))
		}
		return PtrOf(g.lenLeaf())
	default:
		return g.packedSlice() // slice of slice of scalars
	}
}

func (g *tgen) slice(depth int) *TSpec {
	e := g.elem(depth)
	if e.Kind == KUint8 {
		return T(KBytes)
	}
	return SliceOf(e)
}

func (g *tgen) key() *TSpec {
	ws := []int{6, 4, 1, 2}
	if g.p.NoFloatKeys {
		ws[2] = 0
	}
	switch weighted(g.t, "key", ws...) {
	case 0:
		if rapid.IntRange(0, 8).Draw(g.t, "ku8") == 0 {
			return T(KUint8)
		}
		return g.varint()
	case 1:
		if g.p.Named && rapid.IntRange(0, 4).Draw(g.t, "kns") == 0 {
			return NamedT("NString")
		}
		return T(KString)
	case 2:
		return g.float()
	default:
		if g.p.Named && rapid.IntRange(0, 7).Draw(g.t, "kbig") == 0 {
			// keys beyond the runtime's inline key size and beyond 1024 bytes
			return NamedT(pick(g.t, "nbk", namedBig))
		}
		// struct key of comparable leaves
		n := rapid.IntRange(1, 3).Draw(g.t, "kn")
		if rapid.IntRange(0, 5).Draw(g.t, "kwide") == 0 {
			n = rapid.IntRange(4, 12).Draw(g.t, "knw")
		}
		idx := g.indexes(n)
		fs := make([]Field, n)
		for i := range fs {
			var ft *TSpec
			switch weighted(g.t, "kf", 4, 3, 1) {
			case 0:
				ft = g.varint()
			case 1:
				ft = T(KString)
			default:
				if g.p.NoFloatKeys {
					ft = T(KString)
				} else {
					ft = g.float()
				}
			}
			fs[i] = F(g.fieldName(), idx[i], ft)
		}
		return StructOf(fs...)
	}
}

func (g *tgen) mapVal(depth int) *TSpec {
	g.nodes++
	deep := depth < g.p.maxDepth() && g.nodes < 40
	ws := []int{6, 2, 2, 0, 0, 0}
	if g.p.Null {
		ws[2] = 2
	} else {
		ws[2] = 0
	}
	if deep {
		ws[3], ws[4], ws[5] = 3, 2, 2
	}
	switch weighted(g.t, "mv", ws...) {
	case 0:
		return g.leaf(true)
	case 1:
		return PtrOf(g.leaf(true))
	case 2:
		return T(pick(g.t, "mvn", nullLeaves))
	case 3:
		return g.structLike(depth + 1)
	case 4:
		return PtrOf(g.structLike(depth + 1))
	default:
		if g.p.ProtoMaps {
			return g.packedSlice() // standard protobuf maps cannot hold repeated values
		}
		return g.slice(depth + 1)
	}
}

func (g *tgen) mapT(depth int) *TSpec {
	if g.p.Named && rapid.IntRange(0, 19).Draw(g.t, "mbig") == 0 {
		// large keys and/or values (stored indirectly by the runtime; beyond plenc's shared zero buffer)
		switch rapid.IntRange(0, 2).Draw(g.t, "mbigw") {
		case 0:
			return MapOf(NamedT(pick(g.t, "nbk", namedBig)), g.mapVal(depth))
		case 1:
			return MapOf(g.key(), NamedT(pick(g.t, "nbv", namedBig)))
		default:
			return MapOf(NamedT(pick(g.t, "nbk", namedBig)), NamedT(pick(g.t, "nbv", namedBig)))
		}
	}
	return MapOf(g.key(), g.mapVal(depth))
}

func (g *tgen) fieldName() string {
	g.nameN++
	first := "ABCDEFGHIJKLMNOPQRSTUVWXYZ"[rapid.IntRange(0, 25).Draw(g.t, "fn")]
	return fmt.Sprintf("%c%d", first, g.nameN)
}

// indexes draws n distinct field indexes.
func (g *tgen) indexes(n int) []int {
	seen := map[int]bool{}
	out := make([]int, 0, n)
	lo := 0
	if g.p.NoIndexZero {
		lo = 1
	}
	for len(out) < n {
		var i int
		switch weighted(g.t, "ixc", 1500, 450, 150, 1) {
		case 0:
			i = rapid.IntRange(lo, 15).Draw(g.t, "ix")
		case 1:
			i = rapid.IntRange(16, 2047).Draw(g.t, "ix")
		case 2:
			i = rapid.IntRange(2048, 5000).Draw(g.t, "ix")
		default:
			// rarely a very large index (3- and 4-byte tags; implementations may switch
			// representation for sparse index spaces). The field table costs 24 bytes per index.
			i = pick(g.t, "ixbig", []int{8191, 8192, 65535, 65536, 70000})
		}
		for seen[i] {
			i++
		}
		seen[i] = true
		out = append(out, i)
	}
	return out
}

// json:"-" is left out: the statements do not say whether "-" counts as a name
var jsonTagPool = []string{"", "", "", "name", "the_name,omitempty", ",omitempty", "Ünï", "with space", "a\"q", "x,string"}

func (g *tgen) structT(depth int) *TSpec {
	g.nodes++
	maxF := g.p.maxFields()
	if g.nodes > 30 {
		maxF = 2
	}
	n := rapid.IntRange(0, maxF).Draw(g.t, "nf")
	if n == 0 && rapid.IntRange(0, 3).Draw(g.t, "empty") != 0 {
		n = 1
	}
	wide, numericWide := false, false
	if g.nodes < 25 && rapid.IntRange(0, 24).Draw(g.t, "wide") == 0 {
		// occasionally a wide struct (code paths that depend on the number of fields)
		n = rapid.IntRange(9, 24).Draw(g.t, "nwide")
		if rapid.IntRange(0, 7).Draw(g.t, "vwide") == 0 {
			// very wide: around the sizes of bitmaps and small fixed tables
			n = pick(g.t, "nvwide", []int{32, 33, 63, 64, 65, 70, 129, 257})
		}
		wide = true
		numericWide = rapid.IntRange(0, 2).Draw(g.t, "numwide") == 0 // only numbers: bodies of known maximum size
	}
	idx := g.indexes(n)
	fs := make([]Field, 0, n+2)
	for i := 0; i < n; i++ {
		var ft *TSpec
		var opt string
		if wide && numericWide {
			ft = T(pick(g.t, "numk", []Kind{KUint64, KInt64, KUint64, KFloat64, KUint32, KBool, KInt}))
		} else if wide && i >= 4 {
			ft = g.leaf(true) // keep wide structs cheap: mostly leaves
		} else {
			ft, opt = g.fieldType(depth)
		}
		f := F(g.fieldName(), idx[i], ft)
		if opt != "" {
			f.Plenc += "," + opt
		}
		if g.p.JSONTags {
			f.JSON = pick(g.t, "jt", jsonTagPool)
			if f.JSON == "with space" || f.JSON == "Ünï" || f.JSON == "a\"q" || f.JSON == "name" {
				// keep json names unique inside a struct
				f.JSON = fmt.Sprintf("%s%d", f.JSON, i)
			}
		}
		fs = append(fs, f)
		if g.p.Skipped && rapid.IntRange(0, 5).Draw(g.t, "skip") == 0 {
			st := g.leaf(true)
			if rapid.Bool().Draw(g.t, "skipkind") {
				g.nameN++
				fs = append(fs, Field{Name: fmt.Sprintf("x%d", g.nameN), Type: st, Unexported: true})
			} else {
				fs = append(fs, Field{Name: g.fieldName(), Type: st, Plenc: "-", HasPlenc: true})
			}
		}
	}
	return StructOf(fs...)
}

// fieldType draws a type legal in struct-field position plus a tag option.
func (g *tgen) fieldType(depth int) (*TSpec, string) {
	g.nodes++
	deep := depth < g.p.maxDepth() && g.nodes < 40
	//          leaf ptrleaf null slice struct ptrstruct map ptrslice
	ws := []int{10, 3, 0, 0, 0, 0, 0, 0}
	if g.p.Null {
		ws[2] = 2
	}
	if deep {
		ws[3], ws[4], ws[5], ws[7] = 5, 4, 2, 1
		if g.p.Maps {
			ws[6] = 4
		}
	} else {
		ws[3] = 2 // packed slices are leaves enough
	}
	var ft *TSpec
	switch weighted(g.t, "ft", ws...) {
	case 0:
		ft = g.leaf(true)
	case 1:
		ft = PtrOf(g.leaf(true))
	case 2:
		ft = T(pick(g.t, "nk", nullLeaves))
	case 3:
		if deep {
			ft = g.slice(depth + 1)
		} else {
			ft = g.packedSlice()
		}
	case 4:
		ft = g.structLike(depth + 1)
	case 5:
		ft = PtrOf(g.structLike(depth + 1))
	case 6:
		ft = g.mapT(depth + 1)
	default:
		ft = PtrOf(g.packedSlice())
	}
	opt := ""
	if g.p.ProtoMaps && ft.Under().Kind == KMap {
		opt = "proto"
	}
	if g.p.Opts && opt == "" {
		inner := ft.Under()
		isPtr := false
		if inner.Kind == KPtr {
			inner = inner.Elem.Under()
			isPtr = true
		}
		switch {
		case inner.Kind.IsSignedInt():
			if rapid.IntRange(0, 2).Draw(g.t, "flat") == 0 {
				opt = "flat"
			}
		case (inner.Kind == KString || inner.Kind == KNullString) && !isPtr:
			if rapid.IntRange(0, 2).Draw(g.t, "intern") == 0 {
				opt = "intern"
			}
		case inner.Kind == KSlice && !isPtr && RefWireType(inner.Elem, "", Cfg{}) == WTLength:
			if rapid.IntRange(0, 3).Draw(g.t, "protos") == 0 {
				opt = "proto"
			}
		case inner.Kind == KMap && !isPtr:
			if rapid.IntRange(0, 3).Draw(g.t, "protom") == 0 && protoMapValueOK(inner.Elem) {
				opt = "proto"
			}
		}
		// options plenc accepts without effect: any option on a slice applies to the slice, never to its
		// elements (flat on []int leaves the elements zig-zag); intern on anything but a string is ignored
		if opt == "" && !g.p.NoIdleOpts && rapid.IntRange(0, 19).Draw(g.t, "idleopt") == 0 {
			switch {
			case inner.Kind == KSlice && !isPtr && (inner.Elem.Under().Kind.IsSignedInt() || stripPtr(inner.Elem).Kind.IsSignedInt()):
				opt = "flat"
			case inner.Kind.IsSignedInt() || inner.Kind.IsUnsignedInt() || inner.Kind == KBool || inner.Kind.IsFloat() || inner.Kind == KBytes || inner.Kind == KSlice || inner.Kind == KStruct || inner.Kind == KTime:
				opt = "intern"
			}
		}
	}
	return ft, opt
}

// protoMapValueOK: a proto-tagged map's value must be a single field
// occurrence (no repeated or counted form inside an entry).
func protoMapValueOK(v *TSpec) bool {
	return true
}

// ---------------------------------------------------------------------------
// Values

// VProfile tunes value generation.
type VProfile struct {
	Cfg        Cfg
	Depth      int  // recursion budget for recursive named types (default 3)
	NoNaN      bool // finite, non-NaN floats only
	NoInf      bool
	JSONTimes  bool // times restricted to years 1..9999
	NoNilElems bool // no nil entries in pointer slices
	Small      bool // keep containers tiny
	// extreme: every integer at a maximal-length encoding (decided per value by GenVal)
	extreme bool
}

type vgen struct {
	t *rapid.T
	p VProfile
}

// GenVal draws a value of type ts.
func GenVal(t *rapid.T, ts *TSpec, p VProfile) Val {
	if p.Depth == 0 {
		p.Depth = 3
	}
	if rapid.IntRange(0, 11).Draw(t, "extreme") == 0 {
		// one value in twelve has ALL its integers at their longest encodings: worst-case sizes
		p.extreme = true
	}
	g := &vgen{t: t, p: p}
	return g.val(ts, "", p.Depth)
}

var intBoundaries []int64
var uintBoundaries []uint64

func init() {
	seenI := map[int64]bool{}
	addI := func(v int64) {
		if !seenI[v] {
			seenI[v] = true
			intBoundaries = append(intBoundaries, v)
		}
	}
	seenU := map[uint64]bool{}
	addU := func(v uint64) {
		if !seenU[v] {
			seenU[v] = true
			uintBoundaries = append(uintBoundaries, v)
		}
	}
	for _, v := range []int64{0, 1, -1, 2, -2, math.MaxInt8, math.MinInt8, math.MaxInt16, math.MinInt16, math.MaxInt32, math.MinInt32, math.MaxInt64, math.MinInt64} {
		addI(v)
	}
	for k := 1; k <= 9; k++ {
		b := int64(1) << (7*k - 1)
		for _, d := range []int64{-1, 0, 1} {
			addI(b + d)
			addI(-b + d)
		}
	}
	for _, v := range []uint64{0, 1, 2, math.MaxUint8, math.MaxUint16, math.MaxUint32, math.MaxUint64, 1 << 63} {
		addU(v)
	}
	for k := 1; k <= 9; k++ {
		b := uint64(1) << (7 * k)
		addU(b - 1)
		addU(b)
		addU(b + 1)
	}
}

func (g *vgen) intVal(bits int) int64 {
	var v int64
	if g.p.extreme {
		v = pick(g.t, "iext", []int64{math.MinInt64, math.MaxInt64, math.MinInt64 + 1, -1 << 62})
		switch bits {
		case 8:
			return pick(g.t, "iext8", []int64{math.MinInt8, math.MaxInt8})
		case 16:
			return pick(g.t, "iext16", []int64{math.MinInt16, math.MaxInt16})
		case 32:
			return pick(g.t, "iext32", []int64{math.MinInt32, math.MaxInt32})
		}
		return v
	}
	switch weighted(g.t, "ic", 4, 3, 3) {
	case 0:
		v = pick(g.t, "ib", intBoundaries)
	case 1:
		v = rapid.Int64Range(-200, 200).Draw(g.t, "is")
	default:
		v = rapid.Int64().Draw(g.t, "iu")
	}
	switch bits {
	case 8:
		return int64(int8(v))
	case 16:
		return int64(int16(v))
	case 32:
		return int64(int32(v))
	}
	return v
}

func (g *vgen) uintVal(bits int) uint64 {
	var v uint64
	if g.p.extreme {
		v = pick(g.t, "uext", []uint64{math.MaxUint64, 1 << 63, math.MaxUint64 - 1})
		switch bits {
		case 8:
			return math.MaxUint8
		case 16:
			return math.MaxUint16
		case 32:
			return math.MaxUint32
		}
		return v
	}
	switch weighted(g.t, "uc", 4, 3, 3) {
	case 0:
		v = pick(g.t, "ub", uintBoundaries)
	case 1:
		v = rapid.Uint64Range(0, 300).Draw(g.t, "us")
	default:
		v = rapid.Uint64().Draw(g.t, "uu")
	}
	switch bits {
	case 8:
		return uint64(uint8(v))
	case 16:
		return uint64(uint16(v))
	case 32:
		return uint64(uint32(v))
	}
	return v
}

var f64Specials = []uint64{
	0, 1 << 63, // ±0
	1, 1<<63 | 1, // ± min denormal
	0x7FEFFFFFFFFFFFFF, 0xFFEFFFFFFFFFFFFF, // ± max
	0x3FF0000000000000, 0xBFF0000000000000, // ±1
	0x0010000000000000,                     // min normal
	0x3FF0000000000080, 0x3F80000000000000, // bytes 0x80 / 0x00 patterns
	0x400921FB54442D18,                     // pi
	0x4415AF1D78B58C40,                     // 1e20
	0x444B1AE4D6E2EF50,                     // 1e21
	0x3EB0C6F7A0B5ED8D,                     // 1e-6
	0x3E7AD7F29ABCAF48,                     // 1e-7
	0x4340000000000000,                     // 2^53
	0x43E0000000000000, 0xC3E0000000000000, // ±2^63 (int64 conversion boundary)
	0x43F0000000000000,                     // 2^64
	0x41E0000000000000, 0x41F0000000000000, // 2^31, 2^32
	0x43E158E460913D00, // 1e19
	0x433FFFFFFFFFFFFF, // 2^53-1
	0x4059000000000000, // 100
}
var f64Inf = []uint64{0x7FF0000000000000, 0xFFF0000000000000}
var f64NaN = []uint64{0x7FF8000000000000, 0x7FF0000000000001, 0xFFF8000000000001, 0x7FFFFFFFFFFFFFFF}

var f32Specials = []uint32{
	0, 1 << 31, 1, 1<<31 | 1, 0x7F7FFFFF, 0xFF7FFFFF, 0x3F800000, 0xBF800000, 0x00800000,
	0x3F800080, 0x40490FDB, 0x60AD78EC, 0x358637BD, 0x4B800000,
	0x5F000000, 0xDF000000, 0x5F800000, 0x4F000000, 0x4F800000, // ±2^63, 2^64, 2^31, 2^32
}
var f32Inf = []uint32{0x7F800000, 0xFF800000}
var f32NaN = []uint32{0x7FC00000, 0x7F800001, 0xFFC00001, 0x7FFFFFFF}

func (g *vgen) f64() uint64 {
	for {
		var b uint64
		switch weighted(g.t, "fc", 5, 1, 1, 3, 3) {
		case 0:
			b = pick(g.t, "fs", f64Specials)
		case 1:
			if g.p.NoInf || g.p.NoNaN {
				b = pick(g.t, "fs", f64Specials)
			} else {
				b = pick(g.t, "fi", f64Inf)
			}
		case 2:
			if g.p.NoNaN {
				b = pick(g.t, "fs", f64Specials)
			} else {
				b = pick(g.t, "fn", f64NaN)
			}
		case 3:
			b = math.Float64bits(float64(rapid.Int64Range(-1000, 1000).Draw(g.t, "fsm")) / 8)
		default:
			b = rapid.Uint64().Draw(g.t, "fu")
		}
		f := math.Float64frombits(b)
		if g.p.NoNaN && (math.IsNaN(f) || math.IsInf(f, 0)) {
			b &^= 0x4000000000000000 // clear an exponent bit: finite
			f = math.Float64frombits(b)
			if math.IsNaN(f) || math.IsInf(f, 0) {
				continue
			}
		}
		return b
	}
}

func (g *vgen) f32() uint32 {
	for {
		var b uint32
		switch weighted(g.t, "gc", 5, 1, 1, 3, 3) {
		case 0:
			b = pick(g.t, "gs", f32Specials)
		case 1:
			if g.p.NoInf || g.p.NoNaN {
				b = pick(g.t, "gs", f32Specials)
			} else {
				b = pick(g.t, "gi", f32Inf)
			}
		case 2:
			if g.p.NoNaN {
				b = pick(g.t, "gs", f32Specials)
			} else {
				b = pick(g.t, "gn", f32NaN)
			}
		case 3:
			b = math.Float32bits(float32(rapid.Int64Range(-1000, 1000).Draw(g.t, "gsm")) / 8)
		default:
			b = rapid.Uint32().Draw(g.t, "gu")
		}
		f := math.Float32frombits(b)
		if g.p.NoNaN && (f != f || math.IsInf(float64(f), 0)) {
			b &^= 0x40000000
			f = math.Float32frombits(b)
			if f != f || math.IsInf(float64(f), 0) {
				continue
			}
		}
		return b
	}
}

var stringPool = []string{
	"", "a", "\x00", "\xff", "\x80", "abc", "ab", "abd", "hello world", "héllo", "日本語", "\"quoted\"", "back\\slash",
	"line\nbreak", "tab\t", "  ", "😀", "\xc3\x28", "\xe2\x82", "a\x00b", "\x7f", "</script>", "\r\n",
	"\x01\x02\x1f", "key", "value", "0", "-1", "null", "true",
}

func (g *vgen) str() []byte {
	switch weighted(g.t, "sc", 6, 3, 2, 1) {
	case 0:
		return []byte(pick(g.t, "sp", stringPool))
	case 1:
		return []byte(rapid.StringN(0, 12, -1).Draw(g.t, "su"))
	case 2:
		return rapid.SliceOfN(rapid.Byte(), 0, 12).Draw(g.t, "sb")
	default:
		if g.p.Small {
			return []byte("x")
		}
		// around the one/two byte length-prefix boundary, rarely the 2/3 one
		n := pick(g.t, "sl", []int{126, 127, 128, 129, 200, 300})
		if rapid.IntRange(0, 40).Draw(g.t, "huge") == 0 {
			n = pick(g.t, "sh", []int{16383, 16384, 16385, 65535, 65536, 65537})
		}
		b := make([]byte, n)
		fill := rapid.Byte().Draw(g.t, "sf")
		for i := range b {
			b[i] = fill + byte(i)
		}
		return b
	}
}

var timeSecs = []int64{ZeroUnix, ZeroUnix + 1, ZeroUnix - 1, 0, 1, -1, 63, 64, -64, -65, 1 << 31, 1<<31 - 1, -(1 << 31), 1 << 32, 1700000000, 253402300799, 951782400, -2208988800}
var timeSecsWide = []int64{253402300800, 1 << 40, -(1 << 40), 1 << 55, -(1 << 55)}
var timeNsecs = []int32{0, 1, 999999999, 500000000, 63, 64, 8191, 8192, 1000, 1000000, 123456789}
var timeOffs = []int32{0, 0, 0, 3600, -18000, 19800, 45 * 60, -12 * 3600, 14 * 3600, 1}

func (g *vgen) timeVal() *TimeVal {
	var sec int64
	switch weighted(g.t, "tc", 4, 4, 1) {
	case 0:
		sec = pick(g.t, "ts", timeSecs)
	case 1:
		sec = rapid.Int64Range(ZeroUnix, 253402300799).Draw(g.t, "tu")
	default:
		if g.p.JSONTimes {
			sec = pick(g.t, "ts", timeSecs)
		} else {
			sec = pick(g.t, "tw", timeSecsWide)
		}
	}
	var nsec int32
	if rapid.Bool().Draw(g.t, "tnb") {
		nsec = pick(g.t, "tn", timeNsecs)
	} else {
		nsec = rapid.Int32Range(0, 999999999).Draw(g.t, "tnu")
	}
	off := pick(g.t, "to", timeOffs)
	if g.p.JSONTimes && off%60 != 0 {
		off = 0 // RFC 3339 cannot express a zone offset with seconds
	}
	if g.p.JSONTimes {
		// keep the local rendering inside years 1..9999 too
		if sec+int64(off) < ZeroUnix || sec+int64(off) > 253402300799 {
			off = 0
		}
	}
	return &TimeVal{Sec: sec, Nsec: nsec, Off: off}
}

func (g *vgen) containerLen() int {
	if g.p.Small {
		return rapid.IntRange(0, 2).Draw(g.t, "cl")
	}
	switch weighted(g.t, "clc", 4, 6, 12, 3) {
	case 0:
		return 0
	case 1:
		return 1
	case 2:
		return rapid.IntRange(2, 5).Draw(g.t, "cl")
	default:
		return pick(g.t, "clb", []int{9, 17, 127, 128, 129})
	}
}

func (g *vgen) val(ts *TSpec, opt string, depth int) Val {
	u := ts.Under()
	if ts.Kind == KNamed && Catalog[ts.Name].Recursive {
		depth--
	}
	switch u.Kind {
	case KBool:
		if g.p.extreme {
			return Val{B: true}
		}
		return Val{B: rapid.Bool().Draw(g.t, "b")}
	case KInt, KInt8, KInt16, KInt32, KInt64:
		return Val{I: g.intVal(u.Kind.Bits())}
	case KUint, KUint8, KUint16, KUint32, KUint64:
		return Val{U: g.uintVal(u.Kind.Bits())}
	case KFloat32:
		return Val{F: uint64(g.f32())}
	case KFloat64:
		return Val{F: g.f64()}
	case KString:
		return Val{S: g.str()}
	case KBytes:
		if rapid.IntRange(0, 4).Draw(g.t, "bn") == 0 {
			return Val{Nil: true}
		}
		return Val{S: g.str()}
	case KTime:
		return Val{T: g.timeVal()}
	case KNullInt, KNullBool, KNullFloat, KNullString, KNullTime:
		if rapid.IntRange(0, 2).Draw(g.t, "nn") == 0 {
			if (u.Kind == KNullInt || u.Kind == KNullBool || u.Kind == KNullString) && rapid.IntRange(0, 2).Draw(g.t, "leftover") == 0 {
				// invalid, but the payload still holds something: must be treated exactly like invalid
				in := g.val(nullInner(u.Kind), "", depth)
				return Val{Nil: true, P: &in}
			}
			return Val{Nil: true}
		}
		in := g.val(nullInner(u.Kind), "", depth)
		if u.Kind == KNullString && in.S == nil {
			in.S = []byte{}
		}
		return Val{P: &in}
	case KPtr:
		if depth < 0 || rapid.IntRange(0, 3).Draw(g.t, "pn") == 0 {
			return Val{Nil: true}
		}
		// weight zero pointees
		if rapid.IntRange(0, 3).Draw(g.t, "pz") == 0 {
			z := g.zeroish(u.Elem)
			return Val{P: &z}
		}
		p := g.val(u.Elem, opt, depth)
		return Val{P: &p}
	case KSlice:
		if depth < 0 {
			return Val{Nil: true}
		}
		n := g.containerLen()
		if n == 0 {
			if rapid.Bool().Draw(g.t, "sn") {
				return Val{Nil: true}
			}
			return Val{L: []Val{}}
		}
		eu := u.Elem.Under()
		if n > 5 && !(eu.Kind == KBool || eu.Kind.IsSignedInt() || eu.Kind.IsUnsignedInt() || eu.Kind.IsFloat() || eu.Kind == KString) {
			n = 3 // long slices only of cheap elements
		}
		form := RefSliceForm(u, opt, g.p.Cfg)
		l := make([]Val, n)
		for i := range l {
			if eu.Kind == KPtr && !g.p.NoNilElems && form != formProto && rapid.IntRange(0, 5).Draw(g.t, "en") == 0 {
				l[i] = Val{Nil: true}
				continue
			}
			l[i] = g.val(u.Elem, "", depth)
			if eu.Kind == KPtr && l[i].Nil && (g.p.NoNilElems || form == formProto) {
				z := g.zeroish(eu.Elem)
				l[i] = Val{P: &z}
			}
		}
		return Val{L: l}
	case KMap:
		if depth < 0 {
			return Val{Nil: true}
		}
		n := g.containerLen()
		if n > 5 {
			// maps with a multi-byte entry count only when entries are cheap
			ku, vu := u.Key.Under().Kind, u.Elem.Under().Kind
			cheap := func(k Kind) bool { return k.IsSignedInt() || k.IsUnsignedInt() || k == KBool || k == KString }
			if !(n >= 127 && cheap(ku) && cheap(vu) && ku != KBool && ku != KUint8 && ku != KInt8) {
				n = 6
			}
		}
		if n == 0 {
			if rapid.Bool().Draw(g.t, "mn") {
				return Val{Nil: true}
			}
			return Val{M: []KV{}}
		}
		m := make([]KV, 0, n)
		seen := map[string]bool{}
		for i := 0; i < n; i++ {
			var k Val
			if i == 0 && rapid.IntRange(0, 2).Draw(g.t, "kz") == 0 {
				k = ZeroVal(u.Key)
				if u.Key.Under().Kind == KString {
					k.S = []byte{}
				}
			} else if n > 6 {
				// many entries: distinct keys by construction
				switch ku := u.Key.Under().Kind; {
				case ku == KString:
					k = Val{S: []byte(fmt.Sprintf("k%d", i))}
				case ku.IsSignedInt():
					k = Val{I: int64(i) - 3}
				default:
					k = Val{U: uint64(i)}
				}
			} else {
				k = g.keyVal(u.Key)
			}
			ks := normKeyForDedupe(u.Key, k).key(u.Key)
			if seen[ks] {
				continue
			}
			seen[ks] = true
			var v Val
			if rapid.IntRange(0, 3).Draw(g.t, "vz") == 0 {
				v = g.zeroish(u.Elem)
			} else {
				v = g.val(u.Elem, "", depth)
			}
			m = append(m, KV{K: k, V: v})
		}
		return Val{M: m}
	case KStruct:
		l := make([]Val, len(u.Fields))
		for i, f := range u.Fields {
			_, fopt, ok := Field.Enc(f)
			if !ok {
				fopt = ""
			}
			l[i] = g.val(f.Type, fopt, depth)
		}
		return Val{L: l}
	}
	if u.Kind == KUnsup {
		return Val{}
	}
	panic("GenVal: kind " + string(u.Kind))
}

// keyVal draws a map key (no NaN: NaN keys can never be looked up again).
func (g *vgen) keyVal(kt *TSpec) Val {
	save := g.p
	g.p.NoNaN = true
	g.p.NoInf = false
	v := g.val(kt, "", 1)
	g.p = save
	fixTimesUTC(kt, &v)
	return v
}

func fixTimesUTC(t *TSpec, v *Val) {
	u := t.Under()
	switch u.Kind {
	case KTime:
		if v.T != nil {
			v.T.Off = 0
		}
	case KStruct:
		for i, f := range u.Fields {
			fixTimesUTC(f.Type, &v.L[i])
		}
	}
}

// normKeyForDedupe maps keys Go considers equal to one representative (-0 → +0).
func normKeyForDedupe(t *TSpec, v Val) Val {
	u := t.Under()
	switch u.Kind {
	case KFloat32:
		if uint32(v.F) == 1<<31 {
			return Val{}
		}
	case KFloat64:
		if v.F == 1<<63 {
			return Val{}
		}
	case KStruct:
		o := Val{L: make([]Val, len(v.L))}
		for i, f := range u.Fields {
			o.L[i] = normKeyForDedupe(f.Type, v.L[i])
		}
		return o
	}
	return v
}

// zeroish returns a present-but-zero value: zero scalars, empty (non-nil)
// strings and containers, zero structs.
func (g *vgen) zeroish(ts *TSpec) Val {
	u := ts.Under()
	switch u.Kind {
	case KString:
		return Val{S: []byte{}}
	case KBytes:
		if rapid.Bool().Draw(g.t, "zb") {
			return Val{S: []byte{}}
		}
		return Val{Nil: true}
	case KSlice:
		if rapid.Bool().Draw(g.t, "zs") {
			return Val{L: []Val{}}
		}
		return Val{Nil: true}
	case KFloat32:
		if rapid.IntRange(0, 3).Draw(g.t, "zf") == 0 {
			return Val{F: 1 << 31}
		}
	case KFloat64:
		if rapid.IntRange(0, 3).Draw(g.t, "zf") == 0 {
			return Val{F: 1 << 63}
		}
	}
	return ZeroVal(ts)
}

// GenFieldType draws a type legal in struct-field position, with its option.
func GenFieldType(t *rapid.T, p Profile, depth int) (*TSpec, string) {
	g := &tgen{t: t, p: p, nameN: 1000}
	return g.fieldType(depth)
}
