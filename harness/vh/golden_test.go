package vh

import "testing"

func TestOracleSelfTest(t *testing.T) {
	if err := OracleSelfTest(); err != nil {
		t.Fatal(err)
	}
}
