package vh

import (
	"bytes"
	"database/sql"
	"fmt"
	"math"
	"reflect"
	"sort"
	"strings"
	"time"
	"unsafe"

	"github.com/unravelin/null"
)

// Val is a JSON-serialisable value mirroring a TSpec. Which members are
// meaningful depends on the kind:
//
//	bool            B
//	intN            I
//	uintN           U
//	floatN          F (IEEE bits; float32 in the low 32 bits)
//	string          S
//	bytes           Nil | S
//	time            T
//	null.X          Nil (invalid) | P (the value)
//	ptr             Nil | P
//	slice           Nil | L
//	map             Nil | M
//	struct          L (one per field, declaration order)
type Val struct {
	Nil bool     `json:"nil,omitempty"`
	B   bool     `json:"b,omitempty"`
	I   int64    `json:"i,omitempty"`
	U   uint64   `json:"u,omitempty"`
	F   uint64   `json:"f,omitempty"`
	S   []byte   `json:"s,omitempty"`
	T   *TimeVal `json:"t,omitempty"`
	P   *Val     `json:"p,omitempty"`
	L   []Val    `json:"l,omitempty"`
	M   []KV     `json:"m,omitempty"`
}

type KV struct {
	K Val `json:"k"`
	V Val `json:"v"`
}

// TimeVal is an instant plus a zone offset (seconds east of UTC).
type TimeVal struct {
	Sec  int64 `json:"sec"`
	Nsec int32 `json:"nsec"`
	Off  int32 `json:"off,omitempty"`
}

// ZeroUnix is time.Time{}.Unix().
const ZeroUnix = -62135596800

func (tv TimeVal) Time() time.Time {
	t := time.Unix(tv.Sec, int64(tv.Nsec))
	if tv.Off == 0 {
		return t.UTC()
	}
	return t.In(time.FixedZone("", int(tv.Off)))
}

func timeValOf(t time.Time) *TimeVal {
	_, off := t.Zone()
	return &TimeVal{Sec: t.Unix(), Nsec: int32(t.Nanosecond()), Off: int32(off)}
}

func (tv *TimeVal) IsZero() bool { return tv == nil || (tv.Sec == ZeroUnix && tv.Nsec == 0) }

// ZeroVal returns the zero value of t.
func ZeroVal(t *TSpec) Val {
	u := t.Under()
	switch u.Kind {
	case KBytes, KPtr, KSlice, KMap:
		return Val{Nil: true}
	case KTime:
		return Val{T: &TimeVal{Sec: ZeroUnix}}
	case KStruct:
		l := make([]Val, len(u.Fields))
		for i, f := range u.Fields {
			l[i] = ZeroVal(f.Type)
		}
		return Val{L: l}
	}
	if u.Kind.IsNull() {
		return Val{Nil: true}
	}
	return Val{}
}

func nullInner(k Kind) *TSpec {
	switch k {
	case KNullInt:
		return T(KInt64)
	case KNullBool:
		return T(KBool)
	case KNullFloat:
		return T(KFloat64)
	case KNullString:
		return T(KString)
	case KNullTime:
		return T(KTime)
	}
	panic("not a null kind")
}

// ToReflect builds an addressable Go value of type t.Build() holding v.
func ToReflect(t *TSpec, v Val) reflect.Value {
	rv := reflect.New(t.Build()).Elem()
	setReflect(t, rv, v)
	return rv
}

// settable returns a settable alias of rv (which must be addressable) even if
// it was reached through an unexported field.
func settable(rv reflect.Value) reflect.Value {
	if rv.CanSet() {
		return rv
	}
	return reflect.NewAt(rv.Type(), unsafe.Pointer(rv.UnsafeAddr())).Elem()
}

func setReflect(t *TSpec, rv reflect.Value, v Val) {
	rv = settable(rv)
	u := t.Under()
	switch u.Kind {
	case KBool:
		rv.SetBool(v.B)
	case KInt, KInt8, KInt16, KInt32, KInt64:
		rv.SetInt(v.I)
	case KUint, KUint8, KUint16, KUint32, KUint64:
		rv.SetUint(v.U)
	case KFloat32:
		rv.SetFloat(float64(math.Float32frombits(uint32(v.F))))
		// SetFloat through float64 can quieten signalling NaNs; write bits.
		*(*uint32)(unsafe.Pointer(rv.UnsafeAddr())) = uint32(v.F)
	case KFloat64:
		*(*uint64)(unsafe.Pointer(rv.UnsafeAddr())) = v.F
	case KString:
		rv.SetString(string(v.S))
	case KBytes:
		if v.Nil {
			rv.SetZero()
		} else {
			b := make([]byte, len(v.S))
			copy(b, v.S)
			rv.Set(reflect.ValueOf(b).Convert(rv.Type()))
		}
	case KTime:
		tm := time.Time{}
		if v.T != nil {
			tm = v.T.Time()
		}
		rv.Set(reflect.ValueOf(tm).Convert(rv.Type()))
	case KNullInt:
		if v.Nil && v.P != nil {
			rv.Set(reflect.ValueOf(null.Int{NullInt64: sql.NullInt64{Int64: v.P.I}})) // invalid, with a left-over payload
		} else if v.Nil {
			rv.SetZero()
		} else {
			rv.Set(reflect.ValueOf(null.IntFrom(v.P.I)))
		}
	case KNullBool:
		if v.Nil && v.P != nil {
			rv.Set(reflect.ValueOf(null.Bool{NullBool: sql.NullBool{Bool: v.P.B}})) // invalid, with a left-over payload
		} else if v.Nil {
			rv.SetZero()
		} else {
			rv.Set(reflect.ValueOf(null.BoolFrom(v.P.B)))
		}
	case KNullFloat:
		if v.Nil {
			rv.SetZero()
		} else {
			rv.Set(reflect.ValueOf(null.FloatFrom(math.Float64frombits(v.P.F))))
			*(*uint64)(unsafe.Pointer(rv.Field(0).Field(0).UnsafeAddr())) = v.P.F
		}
	case KNullString:
		if v.Nil && v.P != nil {
			rv.Set(reflect.ValueOf(null.String{NullString: sql.NullString{String: string(v.P.S)}})) // invalid, with a left-over payload
		} else if v.Nil {
			rv.SetZero()
		} else {
			rv.Set(reflect.ValueOf(null.StringFrom(string(v.P.S))))
		}
	case KNullTime:
		if v.Nil {
			rv.SetZero()
		} else {
			tm := time.Time{}
			if v.P.T != nil {
				tm = v.P.T.Time()
			}
			rv.Set(reflect.ValueOf(null.TimeFrom(tm)))
		}
	case KPtr:
		if v.Nil {
			rv.SetZero()
		} else {
			p := reflect.New(rv.Type().Elem())
			setReflect(u.Elem, p.Elem(), *v.P)
			rv.Set(p)
		}
	case KSlice:
		if v.Nil {
			rv.SetZero()
		} else {
			s := reflect.MakeSlice(rv.Type(), len(v.L), len(v.L))
			for i := range v.L {
				setReflect(u.Elem, s.Index(i), v.L[i])
			}
			rv.Set(s)
		}
	case KMap:
		if v.Nil {
			rv.SetZero()
		} else {
			m := reflect.MakeMapWithSize(rv.Type(), len(v.M))
			for _, kv := range v.M {
				k := reflect.New(rv.Type().Key()).Elem()
				setReflect(u.Key, k, kv.K)
				e := reflect.New(rv.Type().Elem()).Elem()
				setReflect(u.Elem, e, kv.V)
				m.SetMapIndex(k, e)
			}
			rv.Set(m)
		}
	case KStruct:
		if len(v.L) != len(u.Fields) {
			panic(fmt.Sprintf("struct value has %d fields, type %d: %s", len(v.L), len(u.Fields), t))
		}
		for i, f := range u.Fields {
			setReflect(f.Type, rv.Field(i), v.L[i])
		}
	case KUnsup:
		// values of unsupported kinds only occur in skipped fields; left zero
	default:
		panic("ToReflect: unsupported kind " + string(u.Kind))
	}
}

func readable(rv reflect.Value) reflect.Value {
	if rv.CanInterface() {
		return rv
	}
	if rv.CanAddr() {
		return reflect.NewAt(rv.Type(), unsafe.Pointer(rv.UnsafeAddr())).Elem()
	}
	// copy into an addressable value
	c := reflect.New(rv.Type()).Elem()
	return c
}

// FromReflect observes a Go value of type t.Build().
func FromReflect(t *TSpec, rv reflect.Value) Val {
	if !rv.CanAddr() {
		c := reflect.New(rv.Type()).Elem()
		c.Set(rv)
		rv = c
	}
	rv = readable(rv)
	u := t.Under()
	switch u.Kind {
	case KBool:
		return Val{B: rv.Bool()}
	case KInt, KInt8, KInt16, KInt32, KInt64:
		return Val{I: rv.Int()}
	case KUint, KUint8, KUint16, KUint32, KUint64:
		return Val{U: rv.Uint()}
	case KFloat32:
		return Val{F: uint64(*(*uint32)(unsafe.Pointer(rv.UnsafeAddr())))}
	case KFloat64:
		return Val{F: *(*uint64)(unsafe.Pointer(rv.UnsafeAddr()))}
	case KString:
		return Val{S: []byte(rv.String())}
	case KBytes:
		if rv.IsNil() {
			return Val{Nil: true}
		}
		return Val{S: append([]byte{}, rv.Bytes()...)}
	case KTime:
		tm := rv.Convert(reflect.TypeOf(time.Time{})).Interface().(time.Time)
		return Val{T: timeValOf(tm)}
	case KNullInt:
		n := rv.Interface().(null.Int)
		if !n.Valid {
			return Val{Nil: true}
		}
		return Val{P: &Val{I: n.Int64}}
	case KNullBool:
		n := rv.Interface().(null.Bool)
		if !n.Valid {
			return Val{Nil: true}
		}
		return Val{P: &Val{B: n.Bool}}
	case KNullFloat:
		n := rv.Interface().(null.Float)
		if !n.Valid {
			return Val{Nil: true}
		}
		return Val{P: &Val{F: math.Float64bits(n.Float64)}}
	case KNullString:
		n := rv.Interface().(null.String)
		if !n.Valid {
			return Val{Nil: true}
		}
		return Val{P: &Val{S: []byte(n.String)}}
	case KNullTime:
		n := rv.Interface().(null.Time)
		if !n.Valid {
			return Val{Nil: true}
		}
		return Val{P: &Val{T: timeValOf(n.Time)}}
	case KPtr:
		if rv.IsNil() {
			return Val{Nil: true}
		}
		p := FromReflect(u.Elem, rv.Elem())
		return Val{P: &p}
	case KSlice:
		if rv.IsNil() {
			return Val{Nil: true}
		}
		l := make([]Val, rv.Len())
		for i := range l {
			l[i] = FromReflect(u.Elem, rv.Index(i))
		}
		return Val{L: l}
	case KMap:
		if rv.IsNil() {
			return Val{Nil: true}
		}
		m := make([]KV, 0, rv.Len())
		it := rv.MapRange()
		for it.Next() {
			m = append(m, KV{K: FromReflect(u.Key, it.Key()), V: FromReflect(u.Elem, it.Value())})
		}
		SortKVs(u.Key, m)
		return Val{M: m}
	case KStruct:
		l := make([]Val, len(u.Fields))
		for i, f := range u.Fields {
			l[i] = FromReflect(f.Type, rv.Field(i))
		}
		return Val{L: l}
	}
	if u.Kind == KUnsup {
		return Val{}
	}
	panic("FromReflect: unsupported kind " + string(u.Kind))
}

// NullValidityLost reports the hidden state of null.X values that FromReflect
// cannot see: invalid null values carrying a non-zero payload are observed as
// plain invalid.

// key renders a canonical string for ordering / set membership.
func (v Val) key(t *TSpec) string {
	var b strings.Builder
	v.writeKey(t, &b)
	return b.String()
}

func (v Val) writeKey(t *TSpec, b *strings.Builder) {
	u := t.Under()
	if v.Nil {
		b.WriteString("~")
		return
	}
	switch u.Kind {
	case KBool:
		fmt.Fprintf(b, "b%v", v.B)
	case KInt, KInt8, KInt16, KInt32, KInt64:
		fmt.Fprintf(b, "i%d", v.I)
	case KUint, KUint8, KUint16, KUint32, KUint64:
		fmt.Fprintf(b, "u%d", v.U)
	case KFloat32, KFloat64:
		fmt.Fprintf(b, "f%x", v.F)
	case KString, KBytes:
		fmt.Fprintf(b, "s%d:%s", len(v.S), v.S)
	case KTime:
		tv := v.T
		if tv == nil {
			tv = &TimeVal{Sec: ZeroUnix}
		}
		fmt.Fprintf(b, "t%d.%d", tv.Sec, tv.Nsec)
	case KPtr:
		b.WriteString("&")
		v.P.writeKey(u.Elem, b)
	case KSlice:
		fmt.Fprintf(b, "[%d:", len(v.L))
		for _, e := range v.L {
			e.writeKey(u.Elem, b)
			b.WriteString(",")
		}
		b.WriteString("]")
	case KMap:
		m := append([]KV(nil), v.M...)
		SortKVs(u.Key, m)
		fmt.Fprintf(b, "{%d:", len(m))
		for _, kv := range m {
			kv.K.writeKey(u.Key, b)
			b.WriteString("=>")
			kv.V.writeKey(u.Elem, b)
			b.WriteString(",")
		}
		b.WriteString("}")
	case KStruct:
		b.WriteString("(")
		for i, f := range u.Fields {
			v.L[i].writeKey(f.Type, b)
			b.WriteString(";")
		}
		b.WriteString(")")
	case KUnsup:
		b.WriteString("#")
	default:
		if u.Kind.IsNull() {
			b.WriteString("?")
			v.P.writeKey(nullInner(u.Kind), b)
			return
		}
		panic("writeKey: kind " + string(u.Kind))
	}
}

// SortKVs orders map entries canonically by key.
func SortKVs(kt *TSpec, m []KV) {
	if len(m) < 2 {
		return
	}
	keys := make([]string, len(m))
	for i := range m {
		keys[i] = m[i].K.key(kt)
	}
	idx := make([]int, len(m))
	for i := range idx {
		idx[i] = i
	}
	sort.SliceStable(idx, func(a, b int) bool { return keys[idx[a]] < keys[idx[b]] })
	out := make([]KV, len(m))
	for i, j := range idx {
		out[i] = m[j]
	}
	copy(m, out)
}

// Equal compares two values of type t structurally: floats by bits, times by
// instant and UTC-ness (zone offset), maps as sets of entries, nil and empty
// distinguished.
func Equal(t *TSpec, a, b Val) bool { return Diff(t, a, b) == "" }

// Diff returns "" when equal, otherwise a path to the first difference.
func Diff(t *TSpec, a, b Val) string {
	u := t.Under()
	if a.Nil != b.Nil {
		return fmt.Sprintf(": nil %v vs %v", a.Nil, b.Nil)
	}
	if a.Nil {
		return ""
	}
	switch u.Kind {
	case KBool:
		if a.B != b.B {
			return fmt.Sprintf(": %v vs %v", a.B, b.B)
		}
	case KInt, KInt8, KInt16, KInt32, KInt64:
		if a.I != b.I {
			return fmt.Sprintf(": %d vs %d", a.I, b.I)
		}
	case KUint, KUint8, KUint16, KUint32, KUint64:
		if a.U != b.U {
			return fmt.Sprintf(": %d vs %d", a.U, b.U)
		}
	case KFloat32, KFloat64:
		if a.F != b.F {
			return fmt.Sprintf(": float bits %#x vs %#x", a.F, b.F)
		}
	case KString, KBytes:
		if !bytes.Equal(a.S, b.S) {
			return fmt.Sprintf(": %q vs %q", a.S, b.S)
		}
	case KTime:
		x, y := a.T, b.T
		if x == nil {
			x = &TimeVal{Sec: ZeroUnix}
		}
		if y == nil {
			y = &TimeVal{Sec: ZeroUnix}
		}
		if *x != *y {
			return fmt.Sprintf(": time %+v vs %+v", *x, *y)
		}
	case KPtr:
		if d := Diff(u.Elem, *a.P, *b.P); d != "" {
			return ".*" + d
		}
	case KSlice:
		if len(a.L) != len(b.L) {
			return fmt.Sprintf(": len %d vs %d", len(a.L), len(b.L))
		}
		for i := range a.L {
			if d := Diff(u.Elem, a.L[i], b.L[i]); d != "" {
				return fmt.Sprintf("[%d]%s", i, d)
			}
		}
	case KMap:
		if len(a.M) != len(b.M) {
			return fmt.Sprintf(": map len %d vs %d", len(a.M), len(b.M))
		}
		am := append([]KV(nil), a.M...)
		bm := append([]KV(nil), b.M...)
		SortKVs(u.Key, am)
		SortKVs(u.Key, bm)
		for i := range am {
			if d := Diff(u.Key, am[i].K, bm[i].K); d != "" {
				return fmt.Sprintf("<key %d>%s", i, d)
			}
			if d := Diff(u.Elem, am[i].V, bm[i].V); d != "" {
				return fmt.Sprintf("[%s]%s", am[i].K.key(u.Key), d)
			}
		}
	case KStruct:
		for i, f := range u.Fields {
			if d := Diff(f.Type, a.L[i], b.L[i]); d != "" {
				return "." + f.Name + d
			}
		}
	case KUnsup:
		return ""
	default:
		if u.Kind.IsNull() {
			if d := Diff(nullInner(u.Kind), *a.P, *b.P); d != "" {
				return ".value" + d
			}
			return ""
		}
		panic("Diff: kind " + string(u.Kind))
	}
	return ""
}

// HasNonZeroLeaf reports whether v contains some non-zero scalar/string.
func HasNonZeroLeaf(v Val) bool {
	if v.B || v.I != 0 || v.U != 0 || v.F != 0 || len(v.S) > 0 {
		return true
	}
	if v.T != nil && !v.T.IsZero() {
		return true
	}
	if v.P != nil && HasNonZeroLeaf(*v.P) {
		return true
	}
	for _, e := range v.L {
		if HasNonZeroLeaf(e) {
			return true
		}
	}
	for _, kv := range v.M {
		if HasNonZeroLeaf(kv.K) || HasNonZeroLeaf(kv.V) {
			return true
		}
	}
	return false
}
