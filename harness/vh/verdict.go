package vh

import (
	"strconv"
	"strings"
)

// MustError decides, from the definition alone, whether C08 requires plenc to
// refuse the type: an exported field without a plenc tag, an unparsable or
// negative index, two fields sharing an index, a tag option with no matching
// codec, an unsupported kind, or an unsupported nesting (slices of float
// pointers, slices of slices of length-delimited elements, maps nested where
// they cannot be encoded). The second result names the reason category.
func MustError(t *TSpec) (bool, string) {
	seen := map[string]bool{}
	return mustErr(t, "", seen)
}

// ParseTag splits a raw plenc tag; ok=false means the index part is not a
// non-negative integer.
func ParseTag(raw string) (index int, opt string, ok bool) {
	tag := raw
	if c := strings.IndexByte(tag, ','); c >= 0 {
		opt = tag[c+1:]
		tag = tag[:c]
	}
	i, err := strconv.Atoi(tag)
	if err != nil || i < 0 {
		return 0, opt, false
	}
	return i, opt, true
}

func stripPtr(t *TSpec) *TSpec {
	u := t.Under()
	for u.Kind == KPtr {
		u = u.Elem.Under()
	}
	return u
}

// lenDelimited: the type's single-value encoding is length-delimited
// (string, bytes, time, struct, packed slice, pointer to those).
func lenDelimited(t *TSpec) bool {
	u := stripPtr(t)
	switch u.Kind {
	case KString, KBytes, KTime, KStruct, KNullString, KNullTime:
		return true
	case KSlice:
		return !isCountedLike(u)
	}
	return false
}

// isCountedLike: a slice whose elements are length-delimited (so the slice
// itself needs the counted or repeated form).
func isCountedLike(u *TSpec) bool {
	return u.Kind == KSlice && lenDelimited(u.Elem)
}

func mustErr(t *TSpec, opt string, seen map[string]bool) (bool, string) {
	if t.Kind == KNamed {
		key := t.Name + "|" + opt
		if seen[key] {
			return false, ""
		}
		seen[key] = true
	}
	u := t.Under()
	k := u.Kind
	switch {
	case k == KUnsup:
		return true, "unsupported-kind"
	case k == KBool || k.IsSignedInt() || k.IsUnsignedInt() || k.IsFloat() || k == KString:
		if opt == "" || opt == "intern" || (opt == "flat" && k.IsSignedInt()) {
			return false, ""
		}
		return true, "option-without-codec"
	case k == KTime || k.IsNull():
		// struct kinds: an option that selects no codec may be refused or
		// ignored; either way a codec that is handed out must work (the smoke
		// round trip decides)
		return false, ""
	case k == KBytes:
		return false, ""
	case k == KPtr:
		if u.Elem.Under().Kind == KMap {
			return true, "pointer-to-map"
		}
		return mustErr(u.Elem, opt, seen)
	case k == KSlice:
		if bad, why := mustErr(u.Elem, "", seen); bad {
			return bad, why
		}
		e := u.Elem.Under()
		if e.Kind == KPtr && stripPtr(e).Kind.IsFloat() {
			return true, "slice-of-float-pointers"
		}
		se := stripPtr(e)
		if se.Kind == KMap {
			return true, "slice-of-maps"
		}
		if isCountedLike(se) {
			return true, "slice-of-slices-of-length-delimited"
		}
		return false, ""
	case k == KMap:
		if bad, why := mustErr(u.Key, "", seen); bad {
			return bad, why
		}
		if bad, why := mustErr(u.Elem, "", seen); bad {
			return bad, why
		}
		if stripPtr(u.Elem).Kind == KMap {
			return true, "map-of-maps"
		}
		return false, ""
	case k == KStruct:
		idx := map[int]bool{}
		for _, f := range u.Fields {
			if f.Unexported {
				continue
			}
			if !f.HasPlenc || f.Plenc == "" {
				return true, "untagged-exported-field"
			}
			if f.Plenc == "-" {
				continue
			}
			i, fopt, ok := ParseTag(f.Plenc)
			if !ok {
				return true, "bad-index"
			}
			if idx[i] {
				return true, "duplicate-index"
			}
			idx[i] = true
			if bad, why := mustErr(f.Type, fopt, seen); bad {
				return bad, why
			}
		}
		return false, ""
	}
	return false, ""
}
