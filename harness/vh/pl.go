package vh

import (
	"reflect"

	"github.com/philpearl/plenc"
	plnull "github.com/philpearl/plenc/null"
)

// NewPlenc builds a fresh instance with the given options; the null codecs
// are always registered (they only matter for types that use them).
func NewPlenc(cfg Cfg) *plenc.Plenc {
	p := &plenc.Plenc{ProtoCompatibleArrays: cfg.ProtoArrays, ProtoCompatibleTime: cfg.ProtoTime}
	p.RegisterDefaultCodecs()
	plnull.AddCodecs(p)
	return p
}

// AllCfgs lists the four option combinations.
var AllCfgs = []Cfg{{}, {ProtoArrays: true}, {ProtoTime: true}, {ProtoArrays: true, ProtoTime: true}}

// MarshalPtr marshals the addressable value rv through a pointer.
func MarshalPtr(p *plenc.Plenc, buf []byte, rv reflect.Value) ([]byte, error) {
	return p.Marshal(buf, rv.Addr().Interface())
}

// MarshalVal builds the Go value and marshals it (by pointer).
func MarshalVal(p *plenc.Plenc, t *TSpec, v Val) ([]byte, error) {
	rv := ToReflect(t, v)
	return p.Marshal(nil, rv.Addr().Interface())
}

// UnmarshalFresh decodes into a new zero variable and observes it.
func UnmarshalFresh(p *plenc.Plenc, t *TSpec, data []byte) (Val, error) {
	out := reflect.New(t.Build())
	if err := p.Unmarshal(data, out.Interface()); err != nil {
		return Val{}, err
	}
	return FromReflect(t, out.Elem()), nil
}

// UnmarshalInto decodes into an existing addressable value.
func UnmarshalInto(p *plenc.Plenc, rv reflect.Value, data []byte) error {
	return p.Unmarshal(data, rv.Addr().Interface())
}
