package vh

// Type-guided strict walker / canonicaliser for plenc output. It parses the
// bytes of a value of a known type, insisting that every tag, wire type, length
// and count is exact and that the walk ends precisely at the end of the buffer,
// and returns the same bytes with map entries sorted (so encodings can be
// compared up to map iteration order). It never calls into plenc.

import (
	"bytes"
	"encoding/binary"
	"fmt"
	"sort"
)

type walkErr struct{ msg string }

func (e *walkErr) Error() string { return e.msg }

func werr(f string, a ...any) error { return &walkErr{fmt.Sprintf(f, a...)} }

func readUvarintStrict(data []byte) (uint64, int, error) {
	v, n := binary.Uvarint(data)
	if n <= 0 {
		return 0, 0, werr("bad varint at % x", head(data))
	}
	// minimal encoding not demanded: plenc never writes padded varints, but a
	// padded varint is still one varint. The re-encoded canon keeps the bytes.
	return v, n, nil
}

func head(b []byte) []byte {
	if len(b) > 12 {
		return b[:12]
	}
	return b
}

// WalkStats accumulates what a walk saw.
type WalkStats struct {
	Fields     int
	LenFrames  int
	Counted    int
	MapEntries int
	WireTypes  map[int]int
	MaxDepth   int
}

func (s *WalkStats) wt(w int) {
	if s == nil {
		return
	}
	if s.WireTypes == nil {
		s.WireTypes = map[int]int{}
	}
	s.WireTypes[w]++
}

// Canon walks a top-level Marshal output for type t.
func Canon(t *TSpec, data []byte, cfg Cfg, st *WalkStats) ([]byte, error) {
	if len(data) == 0 {
		return nil, nil
	}
	return canonBody(t, "", data, cfg, st, 0)
}

// canonBody parses data as exactly the untagged body of one value of type t.
func canonBody(t *TSpec, opt string, data []byte, cfg Cfg, st *WalkStats, depth int) ([]byte, error) {
	if st != nil && depth > st.MaxDepth {
		st.MaxDepth = depth
	}
	u := t.Under()
	switch u.Kind {
	case KBool, KInt, KInt8, KInt16, KInt32, KInt64, KUint, KUint8, KUint16, KUint32, KUint64, KNullInt, KNullBool:
		_, n, err := readUvarintStrict(data)
		if err != nil {
			return nil, err
		}
		if n != len(data) {
			return nil, werr("%s: varint of %d bytes in a body of %d", u.Kind, n, len(data))
		}
		return data, nil
	case KFloat32:
		if len(data) != 4 {
			return nil, werr("float32 body of %d bytes", len(data))
		}
		return data, nil
	case KFloat64, KNullFloat:
		if len(data) != 8 {
			return nil, werr("float64 body of %d bytes", len(data))
		}
		return data, nil
	case KString, KBytes, KNullString:
		return data, nil
	case KTime, KNullTime:
		off := 0
		for want := 1; want <= 2; want++ {
			tag, n, err := readUvarintStrict(data[off:])
			if err != nil {
				return nil, werr("time: %v", err)
			}
			off += n
			if int(tag>>3) != want || tag&7 != WTVarInt {
				return nil, werr("time: expected varint field %d, got tag %#x", want, tag)
			}
			_, n, err = readUvarintStrict(data[off:])
			if err != nil {
				return nil, werr("time: %v", err)
			}
			off += n
		}
		if off != len(data) {
			return nil, werr("time: %d trailing bytes", len(data)-off)
		}
		return data, nil
	case KPtr:
		return canonBody(u.Elem, opt, data, cfg, st, depth)
	case KStruct:
		return canonStruct(u, data, cfg, st, depth)
	case KSlice:
		switch RefSliceForm(u, opt, cfg) {
		case formPackedVarint:
			off := 0
			for off < len(data) {
				_, n, err := readUvarintStrict(data[off:])
				if err != nil {
					return nil, werr("packed slice: %v", err)
				}
				off += n
			}
			return data, nil
		case formPackedFixed:
			sz := 8
			if RefWireType(u.Elem, "", cfg) == WT32 {
				sz = 4
			}
			if len(data)%sz != 0 {
				return nil, werr("fixed slice body of %d bytes, element %d", len(data), sz)
			}
			return data, nil
		case formCounted:
			out, n, err := canonCounted(u, data, cfg, st, depth)
			if err != nil {
				return nil, err
			}
			if n != len(data) {
				return nil, werr("counted slice: %d trailing bytes", len(data)-n)
			}
			return out, nil
		case formProto:
			return nil, werr("repeated-form slice has no untagged body")
		}
	case KMap:
		out, n, err := canonMap(u, data, cfg, st, depth)
		if err != nil {
			return nil, err
		}
		if n != len(data) {
			return nil, werr("map: %d trailing bytes", len(data)-n)
		}
		return out, nil
	}
	return nil, werr("canonBody: kind %s", u.Kind)
}

// canonCounted parses count + count*(len+body) from the start of data and
// reports how many bytes that took.
func canonCounted(u *TSpec, data []byte, cfg Cfg, st *WalkStats, depth int) ([]byte, int, error) {
	count, n, err := readUvarintStrict(data)
	if err != nil {
		return nil, 0, werr("slice count: %v", err)
	}
	if st != nil {
		st.Counted++
	}
	out := append([]byte(nil), data[:n]...)
	off := n
	for i := uint64(0); i < count; i++ {
		l, n, err := readUvarintStrict(data[off:])
		if err != nil {
			return nil, 0, werr("slice element %d length: %v", i, err)
		}
		out = append(out, data[off:off+n]...)
		off += n
		if l > uint64(len(data)-off) {
			return nil, 0, werr("slice element %d length %d exceeds remaining %d", i, l, len(data)-off)
		}
		body := data[off : off+int(l)]
		if !(len(body) == 0 && u.Elem.Under().Kind == KPtr) { // nil pointer element = empty body
			cb, err := canonBody(u.Elem, "", body, cfg, st, depth+1)
			if err != nil {
				return nil, 0, werr("slice element %d: %v", i, err)
			}
			out = append(out, cb...)
		}
		off += int(l)
	}
	return out, off, nil
}

func canonMap(u *TSpec, data []byte, cfg Cfg, st *WalkStats, depth int) ([]byte, int, error) {
	count, n, err := readUvarintStrict(data)
	if err != nil {
		return nil, 0, werr("map count: %v", err)
	}
	if st != nil {
		st.Counted++
	}
	out := append([]byte(nil), data[:n]...)
	off := n
	var entries [][]byte
	for i := uint64(0); i < count; i++ {
		l, n, err := readUvarintStrict(data[off:])
		if err != nil {
			return nil, 0, werr("map entry %d length: %v", i, err)
		}
		lenBytes := data[off : off+n]
		off += n
		if l > uint64(len(data)-off) {
			return nil, 0, werr("map entry %d length %d exceeds remaining %d", i, l, len(data)-off)
		}
		ce, err := canonMapEntry(u, data[off:off+int(l)], cfg, st, depth+1)
		if err != nil {
			return nil, 0, werr("map entry %d: %v", i, err)
		}
		entries = append(entries, append(append([]byte(nil), lenBytes...), ce...))
		off += int(l)
	}
	sort.Slice(entries, func(i, j int) bool { return bytes.Compare(entries[i], entries[j]) < 0 })
	for _, e := range entries {
		out = append(out, e...)
	}
	return out, off, nil
}

// canonMapEntry parses an entry body: optional key (field 1) then optional
// value (field 2), nothing else.
func canonMapEntry(u *TSpec, data []byte, cfg Cfg, st *WalkStats, depth int) ([]byte, error) {
	if st != nil {
		st.MapEntries++
	}
	var out []byte
	off := 0
	next := 1
	for off < len(data) {
		tag, n, err := readUvarintStrict(data[off:])
		if err != nil {
			return nil, werr("entry tag: %v", err)
		}
		idx, wt := int(tag>>3), int(tag&7)
		repeatedValue := idx == 2 && next == 3 && IsProtoSlice(u.Elem, "", cfg) // one field per element
		if (idx < next && !repeatedValue) || idx > 2 {
			return nil, werr("entry has field %d (expected >= %d, <= 2)", idx, next)
		}
		next = idx + 1
		ft := u.Key
		if idx == 2 {
			ft = u.Elem
		}
		fo, fn, err := canonFieldPayload(ft, "", wt, data[off+n:], cfg, st, depth, true)
		if err != nil {
			return nil, werr("entry field %d: %v", idx, err)
		}
		out = append(out, data[off:off+n]...)
		out = append(out, fo...)
		off += n + fn
	}
	return out, nil
}

// canonFieldPayload parses what follows a tag of wire type wt for a field of
// type t, returning canonical bytes and the number of input bytes consumed.
func canonFieldPayload(t *TSpec, opt string, wt int, data []byte, cfg Cfg, st *WalkStats, depth int, inMapEntry bool) ([]byte, int, error) {
	st.wt(wt)
	if st != nil {
		st.Fields++
	}
	inner := t.Under()
	for inner.Kind == KPtr {
		inner = inner.Elem.Under()
	}
	proto := false
	var want int
	switch {
	case inner.Kind == KSlice && RefSliceForm(inner, opt, cfg) == formProto:
		want, proto = WTLength, true
	case inner.Kind == KMap && opt == "proto":
		want, proto = WTLength, true
	default:
		want = RefWireType(t, opt, cfg)
	}
	if wt != want {
		return nil, 0, werr("wire type %d, expected %d for %s", wt, want, t)
	}
	switch wt {
	case WTVarInt:
		_, n, err := readUvarintStrict(data)
		if err != nil {
			return nil, 0, err
		}
		return data[:n], n, nil
	case WT32:
		if len(data) < 4 {
			return nil, 0, werr("truncated fixed32")
		}
		return data[:4], 4, nil
	case WT64:
		if len(data) < 8 {
			return nil, 0, werr("truncated fixed64")
		}
		return data[:8], 8, nil
	case WTLength:
		l, n, err := readUvarintStrict(data)
		if err != nil {
			return nil, 0, werr("length: %v", err)
		}
		if l > uint64(len(data)-n) {
			return nil, 0, werr("length %d exceeds remaining %d", l, len(data)-n)
		}
		if st != nil {
			st.LenFrames++
		}
		body := data[n : n+int(l)]
		var cb []byte
		switch {
		case proto && inner.Kind == KSlice:
			cb, err = canonBody(inner.Elem, "", body, cfg, st, depth+1)
		case proto && inner.Kind == KMap:
			cb, err = canonMapEntry(inner, body, cfg, st, depth+1)
		default:
			cb, err = canonBody(t, opt, body, cfg, st, depth+1)
		}
		if err != nil {
			return nil, 0, err
		}
		return append(append([]byte(nil), data[:n]...), cb...), n + int(l), nil
	case WTSlice:
		var out []byte
		var n int
		var err error
		if inner.Kind == KMap {
			out, n, err = canonMap(inner, data, cfg, st, depth)
		} else {
			out, n, err = canonCounted(inner, data, cfg, st, depth)
		}
		return out, n, err
	}
	return nil, 0, werr("wire type %d", wt)
}

// canonStruct parses a struct body: fields of known indexes with exactly the
// expected wire types. Runs of repeated proto-map entries are sorted.
func canonStruct(u *TSpec, data []byte, cfg Cfg, st *WalkStats, depth int) ([]byte, error) {
	type fld struct {
		t   *TSpec
		opt string
	}
	byIndex := map[int]fld{}
	for _, f := range u.Fields {
		if idx, opt, ok := f.Enc(); ok {
			byIndex[idx] = fld{f.Type, opt}
		}
	}
	type piece struct {
		idx      int
		b        []byte
		protoMap bool
	}
	var pieces []piece
	off := 0
	for off < len(data) {
		tag, n, err := readUvarintStrict(data[off:])
		if err != nil {
			return nil, werr("struct tag: %v", err)
		}
		idx, wt := int(tag>>3), int(tag&7)
		f, ok := byIndex[idx]
		if !ok {
			return nil, werr("struct has no field with index %d (tag %#x at offset %d)", idx, tag, off)
		}
		fo, fn, err := canonFieldPayload(f.t, f.opt, wt, data[off+n:], cfg, st, depth, false)
		if err != nil {
			return nil, werr("field %d: %v", idx, err)
		}
		inner := f.t.Under()
		for inner.Kind == KPtr {
			inner = inner.Elem.Under()
		}
		pieces = append(pieces, piece{idx, append(append([]byte(nil), data[off:off+n]...), fo...), inner.Kind == KMap && f.opt == "proto"})
		off += n + fn
	}
	// sort adjacent runs of the same proto map field
	for i := 0; i < len(pieces); {
		j := i + 1
		for j < len(pieces) && pieces[j].idx == pieces[i].idx && pieces[i].protoMap {
			j++
		}
		if j-i > 1 {
			run := pieces[i:j]
			sort.Slice(run, func(a, b int) bool { return bytes.Compare(run[a].b, run[b].b) < 0 })
		}
		i = j
	}
	var out []byte
	for _, p := range pieces {
		out = append(out, p.b...)
	}
	return out, nil
}

// FieldOrderOK checks that the top-level (and nested) struct fields of data
// appear in declaration order with no index repeated, except repeated-form
// fields. It is separate from Canon because the decode side accepts any order.
func FieldOrderOK(t *TSpec, data []byte, cfg Cfg) error {
	// Canon(Marshal) == Canon(RefEncode) already pins the order byte for
	// byte; nothing further needed. Kept for explicit labelling.
	return nil
}

// TopLevelFields parses the top level of a struct encoding and returns, per
// field index, how many times it occurs and the total payload bytes.
func TopLevelFields(t *TSpec, data []byte, cfg Cfg) (map[int]int, error) {
	u := t.Under()
	if u.Kind != KStruct {
		return nil, werr("TopLevelFields: not a struct")
	}
	type fld struct {
		t   *TSpec
		opt string
	}
	byIndex := map[int]fld{}
	for _, f := range u.Fields {
		if idx, opt, ok := f.Enc(); ok {
			byIndex[idx] = fld{f.Type, opt}
		}
	}
	out := map[int]int{}
	off := 0
	for off < len(data) {
		tag, n, err := readUvarintStrict(data[off:])
		if err != nil {
			return nil, err
		}
		idx, wt := int(tag>>3), int(tag&7)
		f, ok := byIndex[idx]
		if !ok {
			return nil, werr("unknown field index %d", idx)
		}
		_, fn, err := canonFieldPayload(f.t, f.opt, wt, data[off+n:], cfg, nil, 0, false)
		if err != nil {
			return nil, werr("field %d: %v", idx, err)
		}
		out[idx]++
		off += n + fn
	}
	return out, nil
}

// TopLevelSpans returns, per top-level field index, the concatenated bytes
// (tags included) of every occurrence of that field.
func TopLevelSpans(t *TSpec, data []byte, cfg Cfg) (map[int][]byte, error) {
	u := t.Under()
	if u.Kind != KStruct {
		return nil, werr("TopLevelSpans: not a struct")
	}
	type fld struct {
		t   *TSpec
		opt string
	}
	byIndex := map[int]fld{}
	for _, f := range u.Fields {
		if idx, opt, ok := f.Enc(); ok {
			byIndex[idx] = fld{f.Type, opt}
		}
	}
	out := map[int][]byte{}
	off := 0
	for off < len(data) {
		tag, n, err := readUvarintStrict(data[off:])
		if err != nil {
			return nil, err
		}
		idx, wt := int(tag>>3), int(tag&7)
		f, ok := byIndex[idx]
		if !ok {
			return nil, werr("unknown field index %d", idx)
		}
		_, fn, err := canonFieldPayload(f.t, f.opt, wt, data[off+n:], cfg, nil, 0, false)
		if err != nil {
			return nil, werr("field %d: %v", idx, err)
		}
		out[idx] = append(out[idx], data[off:off+n+fn]...)
		off += n + fn
	}
	return out, nil
}
