package vh

// ShapeLabels classifies a type for the evidence histogram.
func ShapeLabels(t *TSpec) []string {
	seen := map[string]bool{}
	add := func(s string) { seen[s] = true }
	t.Walk(func(x *TSpec) {
		switch x.Kind {
		case KMap:
			add("T:map")
			if x.Key.Under().Kind == KStruct {
				add("T:map-struct-key")
			}
			if x.Elem.Under().Kind == KPtr {
				add("T:map-ptr-value")
			}
		case KSlice:
			switch x.Elem.Under().Kind {
			case KSlice:
				add("T:slice-of-slice")
			case KPtr:
				add("T:slice-of-ptr")
			case KStruct:
				add("T:slice-of-struct")
			case KString, KBytes, KTime:
				add("T:slice-of-len-leaf")
			case KFloat32, KFloat64:
				add("T:slice-of-float")
			default:
				add("T:slice-of-varint")
			}
		case KPtr:
			add("T:ptr")
		case KNamed:
			add("T:named")
			if Catalog[x.Name].Recursive {
				add("T:recursive")
			}
		case KTime:
			add("T:time")
		case KStruct:
			for _, f := range x.Fields {
				if _, opt, ok := f.Enc(); ok && opt != "" {
					add("T:opt-" + opt)
				}
				if !f.HasPlenc || f.Plenc == "-" || f.Unexported {
					add("T:skipped-field")
				}
				if idx, _, ok := f.Enc(); ok && idx >= 16 {
					add("T:index>=16")
				}
			}
		default:
			if x.Kind.IsNull() {
				add("T:null")
			}
		}
	})
	out := make([]string, 0, len(seen))
	for s := range seen {
		out = append(out, s)
	}
	return out
}

// HasComposite reports whether t contains a struct, slice, map or pointer.
func HasComposite(t *TSpec) bool {
	u := t.Under()
	switch u.Kind {
	case KStruct, KSlice, KMap, KPtr:
		return true
	}
	return false
}

// ValueLabels classifies a value.
func ValueLabels(t *TSpec, v Val) []string {
	seen := map[string]bool{}
	var rec func(t *TSpec, v Val)
	rec = func(t *TSpec, v Val) {
		u := t.Under()
		switch u.Kind {
		case KSlice:
			if !v.Nil && len(v.L) == 0 {
				seen["V:empty-non-nil-slice"] = true
			}
			if len(v.L) >= 127 {
				seen["V:slice>=127"] = true
			}
			for _, e := range v.L {
				if e.Nil && u.Elem.Under().Kind == KPtr {
					seen["V:nil-elem"] = true
				}
				rec(u.Elem, e)
			}
		case KMap:
			if !v.Nil && len(v.M) == 0 {
				seen["V:empty-non-nil-map"] = true
			}
			if len(v.M) > 1 {
				seen["V:multi-entry-map"] = true
			}
			if len(v.M) >= 128 {
				seen["V:map>=128"] = true
			}
			for _, kv := range v.M {
				if RefOmit(u.Key, kv.K) {
					seen["V:zero-map-key"] = true
				}
				if RefOmit(u.Elem, kv.V) {
					seen["V:zero-map-value"] = true
				}
				rec(u.Key, kv.K)
				rec(u.Elem, kv.V)
			}
		case KPtr:
			if !v.Nil {
				if !HasNonZeroLeaf(*v.P) {
					seen["V:ptr-to-zero"] = true
				}
				rec(u.Elem, *v.P)
			}
		case KStruct:
			for i, f := range u.Fields {
				rec(f.Type, v.L[i])
			}
		case KString, KBytes:
			if len(v.S) >= 127 {
				seen["V:len>=127"] = true
			}
		case KFloat32:
			if uint32(v.F) == 1<<31 {
				seen["V:neg-zero"] = true
			}
		case KFloat64:
			if v.F == 1<<63 {
				seen["V:neg-zero"] = true
			}
		case KTime:
			if v.T != nil && v.T.Off != 0 {
				seen["V:non-utc-time"] = true
			}
		default:
			if u.Kind.IsNull() && !v.Nil && !HasNonZeroLeaf(*v.P) {
				seen["V:null-valid-zero"] = true
			}
		}
	}
	rec(t, v)
	out := make([]string, 0, len(seen))
	for s := range seen {
		out = append(out, s)
	}
	return out
}
