package vh

// A deterministic scheduler over instrumented yield points. Worker goroutines
// park whenever the code under test reaches a yield point; the scheduler
// resumes one at a time according to a list of choices, so a run is a pure
// function of that list (and shrinks to a minimal preemption sequence).
//
// If the code under test makes a worker wait on a real lock held by a parked
// worker, the waiting worker produces no event; after a short grace period the
// scheduler treats it as blocked and resumes someone else, so lock-based
// designs do not deadlock the harness. Only when every unfinished worker is
// blocked (nobody parked by the scheduler) is a deadlock reported.

import (
	"bytes"
	"fmt"
	"runtime"
	"strconv"
	"sync"
	"time"
)

func goid() int64 {
	var buf [64]byte
	n := runtime.Stack(buf[:], false)
	// "goroutine 123 [running]:"
	b := buf[:n]
	b = b[len("goroutine "):]
	i := bytes.IndexByte(b, ' ')
	id, _ := strconv.ParseInt(string(b[:i]), 10, 64)
	return id
}

type schedEvent struct {
	worker int
	point  string
	done   bool
}

type Sched struct {
	mu      sync.Mutex
	byGoid  map[int64]int
	resume  []chan struct{}
	events  chan schedEvent
	Trace   []string
	Preempt int // number of preemptions performed
	// PreemptPoints lists the yield points at which a preemption happened
	PreemptPoints []string
}

// Yield is the function to install as the code's yield hook.
func (s *Sched) Yield(point string) {
	id := goid()
	s.mu.Lock()
	w, ok := s.byGoid[id]
	s.mu.Unlock()
	if !ok {
		return // not one of ours (e.g. the sequential reference run)
	}
	s.events <- schedEvent{worker: w, point: point}
	<-s.resume[w]
}

type workerState int

const (
	wsParked workerState = iota
	wsRunning
	wsBlocked
	wsDone
)

// ErrDeadlock is returned when every unfinished worker is blocked.
var ErrDeadlock = fmt.Errorf("all unfinished workers are blocked: deadlock")

// Run executes the workers under the schedule given by choices: at the k-th
// scheduling decision (each yield of the running worker, and each time a
// worker finishes) c := choices[k] (0 beyond the list); at a yield c == 0
// lets the same worker continue, c != 0 preempts it in favour of the c-th next
// parked worker.
func (s *Sched) Run(workers []func(), choices []int) error {
	n := len(workers)
	s.byGoid = map[int64]int{}
	s.resume = make([]chan struct{}, n)
	s.events = make(chan schedEvent, n)
	state := make([]workerState, n)
	var wg sync.WaitGroup
	ready := make(chan struct{}, n)
	for i := range workers {
		s.resume[i] = make(chan struct{}, 1)
		wg.Add(1)
		go func(i int) {
			defer wg.Done()
			s.mu.Lock()
			s.byGoid[goid()] = i
			s.mu.Unlock()
			ready <- struct{}{}
			<-s.resume[i]
			workers[i]()
			s.events <- schedEvent{worker: i, done: true}
		}(i)
	}
	for range workers {
		<-ready
	}
	k := 0
	choice := func() int {
		c := 0
		if k < len(choices) {
			c = choices[k]
		}
		k++
		return c
	}
	nextParked := func(from, c int) int {
		var parked []int
		for j := 1; j <= n; j++ {
			w := (from + j) % n
			if state[w] == wsParked {
				parked = append(parked, w)
			}
		}
		if len(parked) == 0 {
			return -1
		}
		if c < 0 {
			c = -c
		}
		return parked[c%len(parked)]
	}
	unfinished := n
	cur := nextParked(n-1, choice())
	state[cur] = wsRunning
	s.resume[cur] <- struct{}{}
	stuckSince := time.Time{}
	for unfinished > 0 {
		var ev schedEvent
		select {
		case ev = <-s.events:
			stuckSince = time.Time{}
		case <-time.After(20 * time.Millisecond):
			// the running worker(s) produced no event: blocked on a real lock?
			if cur >= 0 && state[cur] == wsRunning {
				state[cur] = wsBlocked
			}
			nx := nextParked(cur, 0)
			if nx >= 0 {
				cur = nx
				state[cur] = wsRunning
				s.resume[cur] <- struct{}{}
				continue
			}
			if stuckSince.IsZero() {
				stuckSince = time.Now()
			} else if time.Since(stuckSince) > 5*time.Second {
				return ErrDeadlock
			}
			continue
		}
		if ev.done {
			state[ev.worker] = wsDone
			unfinished--
			if unfinished == 0 {
				break
			}
			if cur < 0 || ev.worker == cur || state[cur] != wsRunning {
				nx := nextParked(ev.worker, choice())
				if nx >= 0 {
					cur = nx
					state[cur] = wsRunning
					s.resume[cur] <- struct{}{}
				} else {
					cur = -1
				}
			}
			continue
		}
		// a yield
		w := ev.worker
		if len(s.Trace) < 400 {
			s.Trace = append(s.Trace, fmt.Sprintf("%d:%s", w, ev.point))
		}
		state[w] = wsParked
		if w != cur && cur >= 0 && state[cur] == wsRunning {
			// a formerly blocked worker reached a yield while another runs: it stays parked
			continue
		}
		c := choice()
		if c != 0 {
			if nx := nextParked(w, c-1); nx >= 0 && nx != w {
				s.Preempt++
				s.PreemptPoints = append(s.PreemptPoints, ev.point)
				cur = nx
				state[cur] = wsRunning
				s.resume[cur] <- struct{}{}
				continue
			}
		}
		cur = w
		state[w] = wsRunning
		s.resume[w] <- struct{}{}
	}
	wg.Wait()
	return nil
}
