package vh

import (
	"reflect"
	"sort"
	"strings"
	"unsafe"
)

// CatalogEntry is a compiled (named / recursive / generic / embedded) type.
type CatalogEntry struct {
	Name      string
	Type      reflect.Type
	Spec      *TSpec // structural description; may refer back to Name through KNamed
	Recursive bool
}

// Catalog maps catalog names to compiled types.
var Catalog = map[string]*CatalogEntry{}

// Compiled named types ------------------------------------------------------

type NInt int
type NInt8 int8
type NInt32 int32
type NInt64 int64
type NUint uint
type NUint16 uint16
type NUint8 uint8
type NFloat64 float64
type NFloat32 float32
type NBool bool
type NString string
type NBytes []byte // encodes as a packed slice of uint8 varints, not as bytes
type NInts []int
type NStrings []string
type NMapSI map[string]int

type Leaf struct {
	A int    `plenc:"1"`
	B string `plenc:"2"`
}

type Mid struct {
	L  Leaf     `plenc:"1"`
	P  *Leaf    `plenc:"2"`
	Ls []Leaf   `plenc:"3"`
	F  float64  `plenc:"4"`
	N  NInt     `plenc:"5"`
	S  NString  `plenc:"6,intern"`
	Is NInts    `plenc:"7"`
	M  NMapSI   `plenc:"8"`
	U  NUint16  `plenc:"9"`
	Fl NInt64   `plenc:"10,flat"`
	Bs NBytes   `plenc:"11"`
	Ss NStrings `plenc:"12"`
}

// Tree is recursive through a slice.
type Tree struct {
	V    int    `plenc:"1"`
	Kids []Tree `plenc:"2"`
	Name string `plenc:"3"`
}

// List is recursive through a pointer.
type List struct {
	V    string `plenc:"1"`
	Next *List  `plenc:"2"`
	N    int    `plenc:"3"`
}

// MutA and MutB are mutually recursive.
type MutA struct {
	B *MutB `plenc:"1"`
	X int   `plenc:"2"`
}

type MutB struct {
	As []MutA `plenc:"1"`
	Y  string `plenc:"2"`
}

// Cyc1..3 form a 3-cycle.
type Cyc1 struct {
	N *Cyc2 `plenc:"1"`
	V int8  `plenc:"2"`
}
type Cyc2 struct {
	N []Cyc3 `plenc:"1"`
	V uint   `plenc:"2"`
}
type Cyc3 struct {
	N []*Cyc1 `plenc:"1"`
	V string  `plenc:"2"`
}

// MapRec is recursive through a map value.
type MapRec struct {
	M map[string]MapRec `plenc:"1"`
	V int               `plenc:"2"`
}

// PtrSliceRec is recursive through a slice of pointers.
type PtrSliceRec struct {
	Kids []*PtrSliceRec `plenc:"1"`
	V    float32        `plenc:"2"`
}

type Pair[A, B any] struct {
	First  A `plenc:"1"`
	Second B `plenc:"2"`
}

type Embeds struct {
	Leaf `plenc:"1"`
	C    int `plenc:"2"`
}

type EmbedsPtr struct {
	*Leaf `plenc:"3"`
	D     string `plenc:"1"`
}

type WithJSON struct {
	A int     `plenc:"1" json:"alpha"`
	B string  `plenc:"2" json:"beta,omitempty"`
	C float64 `plenc:"3" json:"-"`
	D bool    `plenc:"4" json:",omitempty"`
	e int
	G []byte `plenc:"-"`
}

func init() {
	RegisterNamed("NInt", NInt(0))
	RegisterNamed("NInt8", NInt8(0))
	RegisterNamed("NInt32", NInt32(0))
	RegisterNamed("NInt64", NInt64(0))
	RegisterNamed("NUint", NUint(0))
	RegisterNamed("NUint16", NUint16(0))
	RegisterNamed("NUint8", NUint8(0))
	RegisterNamed("NFloat64", NFloat64(0))
	RegisterNamed("NFloat32", NFloat32(0))
	RegisterNamed("NBool", NBool(false))
	RegisterNamed("NString", NString(""))
	RegisterNamed("NBytes", NBytes(nil))
	RegisterNamed("NInts", NInts(nil))
	RegisterNamed("NStrings", NStrings(nil))
	RegisterNamed("NMapSI", NMapSI(nil))
	RegisterNamed("Leaf", Leaf{})
	RegisterNamed("Mid", Mid{})
	RegisterNamed("Tree", Tree{})
	RegisterNamed("List", List{})
	RegisterNamed("MutA", MutA{})
	RegisterNamed("MutB", MutB{})
	RegisterNamed("Cyc1", Cyc1{})
	RegisterNamed("Cyc2", Cyc2{})
	RegisterNamed("Cyc3", Cyc3{})
	RegisterNamed("MapRec", MapRec{})
	RegisterNamed("PtrSliceRec", PtrSliceRec{})
	RegisterNamed("PairIS", Pair[int, string]{})
	RegisterNamed("PairLeafTree", Pair[Leaf, []Tree]{})
	RegisterNamed("Embeds", Embeds{})
	RegisterNamed("EmbedsPtr", EmbedsPtr{})
	RegisterNamed("WithJSON", WithJSON{})
	_ = WithJSON{}.e
	markRecursive()
}

var catalogByType = map[reflect.Type]string{}

// RegisterNamed adds a compiled type to the catalog under name. Named types
// it refers to must be registered too (before or after).
func RegisterNamed(name string, zero any) {
	rt := reflect.TypeOf(zero)
	catalogByType[rt] = name
	Catalog[name] = &CatalogEntry{Name: name, Type: rt}
	// Spec is filled lazily (needs all names registered)
}

func ensureSpecs() {
	for _, e := range Catalog {
		if e.Spec == nil {
			e.Spec = structuralSpec(e.Type)
		}
	}
}

// SpecOf derives a TSpec from a compiled type; registered named types become
// KNamed references.
func SpecOf(rt reflect.Type) *TSpec {
	if name, ok := catalogByType[rt]; ok {
		return NamedT(name)
	}
	return structuralSpec(rt)
}

func structuralSpec(rt reflect.Type) *TSpec {
	for k, st := range scalarTypes {
		if st == rt {
			return T(k)
		}
	}
	switch rt.Kind() {
	case reflect.Ptr:
		return PtrOf(SpecOf(rt.Elem()))
	case reflect.Slice:
		return SliceOf(SpecOf(rt.Elem()))
	case reflect.Map:
		return MapOf(SpecOf(rt.Key()), SpecOf(rt.Elem()))
	case reflect.Struct:
		fs := make([]Field, rt.NumField())
		for i := range fs {
			sf := rt.Field(i)
			f := Field{Name: sf.Name, Type: SpecOf(sf.Type), Unexported: sf.PkgPath != ""}
			f.Plenc, f.HasPlenc = sf.Tag.Lookup("plenc")
			f.JSON = sf.Tag.Get("json")
			fs[i] = f
		}
		return &TSpec{Kind: KStruct, Fields: fs}
	}
	for name, ut := range unsupTypes {
		if ut.Kind() == rt.Kind() {
			return Unsup(name)
		}
	}
	// named basic kinds
	for k, st := range scalarTypes {
		if st.Kind() == rt.Kind() && k != KBytes && k != KTime && !k.IsNull() {
			return T(k)
		}
	}
	panic("structuralSpec: unsupported type " + rt.String())
}

func markRecursive() {
	ensureSpecs()
	for name, e := range Catalog {
		// does e's structure reach name again?
		seen := map[string]bool{}
		var rec func(t *TSpec) bool
		rec = func(t *TSpec) bool {
			switch t.Kind {
			case KPtr, KSlice:
				return rec(t.Elem)
			case KMap:
				return rec(t.Key) || rec(t.Elem)
			case KStruct:
				for _, f := range t.Fields {
					if rec(f.Type) {
						return true
					}
				}
			case KNamed:
				if t.Name == name {
					return true
				}
				if seen[t.Name] {
					return false
				}
				seen[t.Name] = true
				return rec(Catalog[t.Name].Spec)
			}
			return false
		}
		e.Recursive = rec(e.Spec)
	}
}

// CatalogNames returns the sorted catalog names, optionally filtered.
func CatalogNames(pred func(*CatalogEntry) bool) []string {
	var out []string
	for n, e := range Catalog {
		if pred == nil || pred(e) {
			out = append(out, n)
		}
	}
	sort.Strings(out)
	return out
}

// IsStructName reports whether the catalog type is a struct.
func IsStructName(name string) bool {
	return Catalog[name].Type.Kind() == reflect.Struct
}

func init() {
	// sanity: names unique and no accidental prefix issues
	for n := range Catalog {
		if strings.TrimSpace(n) != n {
			panic("bad catalog name")
		}
	}
}

// Hand-written evolved variants of catalog types (C03): fields removed, added
// under fresh indexes, renamed and reordered.
type TreeV2 struct {
	Label string   `plenc:"3"` // renamed from Name
	Extra int      `plenc:"9"` // added
	Kids  []TreeV2 `plenc:"2"`
	// V (index 1) removed
}

type ListV2 struct {
	Added []string `plenc:"7"`
	Next  *ListV2  `plenc:"2"`
	V     string   `plenc:"1"`
	// N (index 3) removed
}

type MidV2 struct {
	Ss    NStrings          `plenc:"12"`
	New1  map[string]string `plenc:"20"`
	P     *Leaf             `plenc:"2"`
	F     float64           `plenc:"4"`
	New2  *int              `plenc:"21"`
	Is    NInts             `plenc:"7"`
	Fl    NInt64            `plenc:"10,flat"`
	Other NString           `plenc:"6,intern"`
	// L(1), Ls(3), N(5), M(8), U(9), Bs(11) removed
}

func init() {
	RegisterNamed("TreeV2", TreeV2{})
	RegisterNamed("ListV2", ListV2{})
	RegisterNamed("MidV2", MidV2{})
	markRecursive()
}

// Invalid recursive definitions (C08): the build of the type fails after
// codecs for types that refer to it have been started.
type BadRecComplex struct {
	Kids []BadRecComplex `plenc:"1"`
	C    complex64       `plenc:"2"`
}

type BadRecFunc struct {
	Next *BadRecFunc `plenc:"1"`
	V    int         `plenc:"2"`
	F    func()      `plenc:"3"`
}

type BadRecUntagged struct {
	M map[string]BadRecUntagged `plenc:"1"`
	X int
}

type BadRecDup struct {
	Kids []*BadRecDup `plenc:"1"`
	A    int          `plenc:"2"`
	B    string       `plenc:"2"`
}

type BadMutA struct {
	B *BadMutB `plenc:"1"`
}
type BadMutB struct {
	As []BadMutA `plenc:"1"`
	Ch chan int  `plenc:"2"`
}

// BadNames lists the catalog types whose definition plenc must reject.
var BadNames = []string{"BadRecComplex", "BadRecFunc", "BadRecUntagged", "BadRecDup", "BadMutA", "BadMutB"}

func init() {
	RegisterNamed("BadRecComplex", BadRecComplex{})
	RegisterNamed("BadRecFunc", BadRecFunc{})
	RegisterNamed("BadRecUntagged", BadRecUntagged{})
	RegisterNamed("BadRecDup", BadRecDup{})
	RegisterNamed("BadMutA", BadMutA{})
	RegisterNamed("BadMutB", BadMutB{})
	markRecursive()
}

// Types that C17 registers marker codecs for.
type MStr string
type MInt int

func init() {
	RegisterNamed("MStr", MStr(""))
	RegisterNamed("MInt", MInt(0))
	markRecursive()
}

// Recursive through fields that carry a tag option (codecs built under a tag).
type TreeP struct {
	Kids []TreeP `plenc:"1,proto"`
	V    int     `plenc:"2,flat"`
	Name string  `plenc:"3,intern"`
	Next *TreeP  `plenc:"4,proto"`
}

type TagMutA struct {
	B []TagMutB `plenc:"1,proto"`
	X NInt      `plenc:"2,flat"`
}
type TagMutB struct {
	A *TagMutA           `plenc:"1"`
	M map[string]TagMutA `plenc:"2,proto"`
	Y string             `plenc:"3"`
}

func init() {
	RegisterNamed("TreeP", TreeP{})
	RegisterNamed("TagMutA", TagMutA{})
	RegisterNamed("TagMutB", TagMutB{})
	markRecursive()
}

// RefNode refers to its parent through a field whose codec is registered under
// a tag for the struct type itself (C17: a "reference" codec).
type RefNode struct {
	ID     int      `plenc:"1"`
	Parent *RefNode `plenc:"2,ref"`
	Name   string   `plenc:"3"`
}

func init() {
	RegisterNamed("RefNode", RefNode{})
	markRecursive()
}

// Large comparable structs: as map keys and values they are beyond the sizes up
// to which the Go runtime stores keys and elements inline (128 bytes) and beyond
// plenc's shared 1024-byte zero buffer for absent map keys and values.
type Blk64 struct {
	A int64  `plenc:"1"`
	B string `plenc:"2"`
	C uint64 `plenc:"3"`
	D uint32 `plenc:"4"`
	E bool   `plenc:"5"`
	F int8   `plenc:"6"`
	G string `plenc:"7"`
	H int64  `plenc:"8,flat"`
}

type Big192 struct {
	B1 Blk64 `plenc:"1"`
	B2 Blk64 `plenc:"2"`
	B3 Blk64 `plenc:"3"`
}

type Big1024 struct {
	B1  Blk64 `plenc:"1"`
	B2  Blk64 `plenc:"2"`
	B3  Blk64 `plenc:"3"`
	B4  Blk64 `plenc:"4"`
	B5  Blk64 `plenc:"5"`
	B6  Blk64 `plenc:"6"`
	B7  Blk64 `plenc:"7"`
	B8  Blk64 `plenc:"8"`
	B9  Blk64 `plenc:"9"`
	B10 Blk64 `plenc:"10"`
	B11 Blk64 `plenc:"11"`
	B12 Blk64 `plenc:"12"`
	B13 Blk64 `plenc:"13"`
	B14 Blk64 `plenc:"14"`
	B15 Blk64 `plenc:"15"`
	B16 Blk64 `plenc:"16"`
}

type Big1032 struct {
	Big Big1024 `plenc:"1"`
	X   int64   `plenc:"2"`
}

func init() {
	if unsafe.Sizeof(Blk64{}) != 64 || unsafe.Sizeof(Big1024{}) != 1024 || unsafe.Sizeof(Big1032{}) != 1032 {
		panic("catalog: Blk64/Big1024/Big1032 do not have the intended sizes")
	}
	RegisterNamed("Blk64", Blk64{})
	RegisterNamed("Big192", Big192{})
	RegisterNamed("Big1024", Big1024{})
	RegisterNamed("Big1032", Big1032{})
	markRecursive()
}
