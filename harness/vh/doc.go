// Package vh holds the shared verification machinery.
package vh
