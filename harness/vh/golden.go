package vh

import (
	"bytes"
	"encoding/hex"
	"fmt"
	"math"
	"time"
)

// The 19 golden encodings shipped in plenccodec/testdata at the pinned commit,
// embedded so the reference encoder's self-test does not depend on the tree
// under test.
type goldenCase struct {
	name string
	hex  string
	t    *TSpec
	v    Val
}

func iv(i int64) Val     { return Val{I: i} }
func uv(u uint64) Val    { return Val{U: u} }
func sv(s string) Val    { return Val{S: []byte(s)} }
func f64v(f float64) Val { return Val{F: math.Float64bits(f)} }
func f32v(f float32) Val { return Val{F: uint64(math.Float32bits(f))} }
func lv(vs ...Val) Val   { return Val{L: vs} }

func goldenCases() []goldenCase {
	structT := StructOf(
		F("Name", 1, T(KString)), FOpt("Age", 2, "flat", T(KInt)), F("F32", 3, T(KFloat32)), F("F64", 4, T(KFloat64)),
		F("I", 5, T(KInt)), F("J", 6, SliceOf(T(KUint32))), F("K", 7, SliceOf(T(KString))), F("L", 8, PtrOf(T(KInt))), F("M", 9, PtrOf(T(KInt32))))
	structV := lv(sv("Phil"), iv(1337), f32v(1234.5678), f64v(1234.5678), iv(-234332), lv(uv(747439), uv(2223), uv(3344)),
		lv(sv("hats"), sv("coats")), Val{Nil: true}, Val{P: &Val{I: 1234}})
	saT := SliceOf(StructOf(F("Name", 1, T(KString)), F("Age", 2, T(KInt))))
	tm := time.Date(1970, 3, 15, 13, 37, 42, 0, time.UTC)
	return []goldenCase{
		{"string", "68617473", T(KString), sv("hats")},
		{"string_array", "02046861747305636f617473", SliceOf(T(KString)), lv(sv("hats"), sv("coats"))},
		{"bytes", "01020304", T(KBytes), Val{S: []byte{1, 2, 3, 4}}},
		{"int16", "a413", T(KInt16), iv(1234)},
		{"int32", "a413", T(KInt32), iv(1234)},
		{"int64", "9a9cd1fb5b", T(KInt64), iv(12343453453)},
		{"uint16", "d209", T(KUint16), uv(1234)},
		{"uint32", "d209", T(KUint32), uv(1234)},
		{"uint64", "8dcee8fd2d", T(KUint64), uv(12343453453)},
		{"int_array", "0204f214c401c701", SliceOf(T(KInt)), lv(iv(1), iv(2), iv(1337), iv(98), iv(-100))},
		{"float32", "2b529a44", T(KFloat32), f32v(1234.5678)},
		{"float64", "adfa5c6d454a9340", T(KFloat64), f64v(1234.5678)},
		{"float_array", "333333333333f33f3333333333330b406666666666661640", SliceOf(T(KFloat64)), lv(f64v(1.2), f64v(3.4), f64v(5.6))},
		{"bool", "01", T(KBool), Val{B: true}},
		{"bool_array", "010001", SliceOf(T(KBool)), lv(Val{B: true}, Val{B: false}, Val{B: true})},
		{"struct", "0a045068696c10b90a1d2b529a4421adfa5c6d454a934028b7cd1c3207afcf2daf11901a3b02046861747305636f61747348a413", structT, structV},
		{"struct_array", "02090a045068696c10f214070a03426f621054", saT, lv(lv(sv("Phil"), iv(1337)), lv(sv("Bob"), iv(42)))},
		{"map", "01090a045068696c10f214", MapOf(T(KString), T(KInt)), Val{M: []KV{{sv("Phil"), iv(1337)}}}},
		{"time", "08ccf487061000", T(KTime), Val{T: &TimeVal{Sec: tm.Unix()}}},
	}
}

// OracleSelfTest checks the reference encoder and the walker against the
// golden files and a few hand-derived encodings. A non-nil error means the
// oracle is broken: checks must report "inconclusive", never a violation.
func OracleSelfTest() error {
	for _, g := range goldenCases() {
		want, _ := hex.DecodeString(g.hex)
		got := RefEncode(g.t, g.v, Cfg{})
		if !bytes.Equal(got, want) {
			return fmt.Errorf("reference encoder disagrees with %s.golden: % x vs % x", g.name, got, want)
		}
		c, err := Canon(g.t, want, Cfg{}, nil)
		if err != nil {
			return fmt.Errorf("walker rejects %s.golden: %v", g.name, err)
		}
		if !bytes.Equal(c, want) {
			return fmt.Errorf("walker changes %s.golden: % x", g.name, c)
		}
		// model: the goldens are already normal forms
		if d := Diff(g.t, Normalise(g.t, g.v, Cfg{}), g.v); d != "" {
			return fmt.Errorf("model normalises golden value %s: %s", g.name, d)
		}
	}
	// hand-derived: proto forms (README: standard protobuf encoding for slices)
	st := StructOf(F("K", 7, SliceOf(T(KString))), F("T", 2, T(KTime)))
	v := lv(lv(sv("a"), sv("")), Val{T: &TimeVal{Sec: -1, Nsec: 5}})
	got := RefEncode(st, v, Cfg{ProtoArrays: true, ProtoTime: true})
	want, _ := hex.DecodeString("3a01613a00" + "120d" + "08ffffffffffffffffff01" + "1005")
	if !bytes.Equal(got, want) {
		return fmt.Errorf("reference encoder proto form: % x vs % x", got, want)
	}
	return nil
}
