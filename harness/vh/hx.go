package vh

// Harness runtime: property runner (rapid + replay), per-case statistics for
// the evidence file, failure files, journal + watchdog, known findings.

import (
	"bytes"
	"encoding/json"
	"flag"
	"fmt"
	"hash/fnv"
	"os"
	"path/filepath"
	"runtime"
	"runtime/debug"
	"sort"
	"strconv"
	"strings"
	"sync"
	"sync/atomic"
	"testing"
	"time"

	"pgregory.net/rapid"
)

// Failure is a property violation on one case.
type Failure struct {
	Class string `json:"class"` // narrow classification, used to match known findings
	Msg   string `json:"msg"`
}

func (f *Failure) Error() string { return f.Class + ": " + f.Msg }

// Fail builds a failure.
func Fail(class, format string, a ...any) *Failure {
	return &Failure{Class: class, Msg: fmt.Sprintf(format, a...)}
}

// Ctx collects per-case observations.
type Ctx struct {
	labels     []string
	nontrivial bool
	sample     any
	excluded   []string
}

// Exclude records that the case was left out of the oracle because it
// matches the predicate of the open known finding id.
func (x *Ctx) Exclude(id string) { x.excluded = append(x.excluded, id) }

func (x *Ctx) Label(l string)  { x.labels = append(x.labels, l) }
func (x *Ctx) NonTrivial()     { x.nontrivial = true }
func (x *Ctx) SetSample(s any) { x.sample = s }
func (x *Ctx) LabelIf(c bool, l string) {
	if c {
		x.labels = append(x.labels, l)
	}
}

// Tier returns "quick" or "thorough".
func Tier() string {
	if os.Getenv("VERIF_TIER") == "thorough" {
		return "thorough"
	}
	return "quick"
}

// Thorough reports whether the thorough tier is running.
func Thorough() bool { return Tier() == "thorough" }

// N picks a case count by tier.
func N(quick, thorough int) int {
	n := quick
	if Thorough() {
		n = thorough
	}
	if s := os.Getenv("VERIF_SCALE"); s != "" {
		if f, err := strconv.ParseFloat(s, 64); err == nil && f > 0 {
			n = int(float64(n) * f)
			if n < 1 {
				n = 1
			}
		}
	}
	return n
}

func outDir() string {
	d := os.Getenv("VERIF_OUT_DIR")
	if d == "" {
		d = os.TempDir()
	}
	return d
}

// ---------------------------------------------------------------------------
// Stats

const maxHashes = 150000

type Stats struct {
	mu         sync.Mutex
	Property   string           `json:"property"`
	Check      string           `json:"check"`
	Cases      int64            `json:"cases"`
	NonTrivial int64            `json:"nontrivial_evaluations"`
	Hashes     []uint64         `json:"hashes"`
	HashCapped bool             `json:"hash_capped"`
	Labels     map[string]int64 `json:"labels"`
	Samples    []sampleEntry    `json:"samples"`
	Excluded   map[string]int64 `json:"excluded_known"`
	// ExtraDistinct counts non-trivial cases that are distinct by construction
	// (exhaustive enumerations) and therefore not hashed.
	ExtraDistinct int64          `json:"extra_distinct"`
	Exhaustive    map[string]any `json:"exhaustive,omitempty"`
	Notes         []string       `json:"notes,omitempty"`
	hashSet       map[uint64]struct{}
}

type sampleEntry struct {
	Hash uint64 `json:"hash"`
	Case any    `json:"case"`
}

var allStats []*Stats
var allStatsMu sync.Mutex

// NewStats registers a statistics sink for one sub-check.
func NewStats(property, check string) *Stats {
	s := &Stats{Property: property, Check: check, Labels: map[string]int64{}, Excluded: map[string]int64{}, hashSet: map[uint64]struct{}{}}
	allStatsMu.Lock()
	allStats = append(allStats, s)
	allStatsMu.Unlock()
	return s
}

func hashBytes(b []byte) uint64 {
	h := fnv.New64a()
	h.Write(b)
	return h.Sum64()
}

// Record adds one evaluated case. key identifies the case (distinctness);
// sample is only retained for a few non-trivial cases.
func (s *Stats) Record(key []byte, nontrivial bool, labels []string, sample func() any) {
	s.mu.Lock()
	defer s.mu.Unlock()
	s.Cases++
	for _, l := range labels {
		s.Labels[l]++
	}
	if !nontrivial {
		return
	}
	s.NonTrivial++
	h := hashBytes(append([]byte(s.Check+"|"), key...))
	if _, ok := s.hashSet[h]; ok {
		return
	}
	if len(s.hashSet) >= maxHashes {
		s.HashCapped = true
		return
	}
	s.hashSet[h] = struct{}{}
	// keep the 4 samples with the smallest hashes: deterministic, unbiased by order
	if sample != nil && (len(s.Samples) < 4 || h < s.Samples[len(s.Samples)-1].Hash) {
		s.Samples = append(s.Samples, sampleEntry{h, sample()})
		sort.Slice(s.Samples, func(i, j int) bool { return s.Samples[i].Hash < s.Samples[j].Hash })
		if len(s.Samples) > 4 {
			s.Samples = s.Samples[:4]
		}
	}
}

func (s *Stats) Note(f string, a ...any) {
	s.mu.Lock()
	s.Notes = append(s.Notes, fmt.Sprintf(f, a...))
	s.mu.Unlock()
}

func (s *Stats) SetExhaustive(name string, v any) {
	s.mu.Lock()
	if s.Exhaustive == nil {
		s.Exhaustive = map[string]any{}
	}
	s.Exhaustive[name] = v
	s.mu.Unlock()
}

func (s *Stats) AddExcluded(id string) {
	s.mu.Lock()
	s.Excluded[id]++
	s.mu.Unlock()
}

// FlushStats writes every registered Stats to the out dir. Called from
// TestMain after m.Run.
func FlushStats() {
	allStatsMu.Lock()
	defer allStatsMu.Unlock()
	for i, s := range allStats {
		s.mu.Lock()
		s.Hashes = s.Hashes[:0]
		for h := range s.hashSet {
			s.Hashes = append(s.Hashes, h)
		}
		sort.Slice(s.Hashes, func(a, b int) bool { return s.Hashes[a] < s.Hashes[b] })
		b, err := json.Marshal(s)
		s.mu.Unlock()
		if err != nil {
			fmt.Fprintln(os.Stderr, "stats marshal:", err)
			continue
		}
		name := fmt.Sprintf("stats-%s-%s-%d-%d.json", s.Property, sanitize(s.Check), os.Getpid(), i)
		if err := os.WriteFile(filepath.Join(outDir(), name), b, 0o644); err != nil {
			fmt.Fprintln(os.Stderr, "stats write:", err)
		}
	}
}

func sanitize(s string) string {
	return strings.Map(func(r rune) rune {
		if r >= 'a' && r <= 'z' || r >= 'A' && r <= 'Z' || r >= '0' && r <= '9' || r == '-' || r == '_' {
			return r
		}
		return '_'
	}, s)
}

// ---------------------------------------------------------------------------
// Known findings

type Finding struct {
	ID       string `json:"id"`
	Property string `json:"property"`
	Status   string `json:"status"` // "open" or "fixed"
	Class    string `json:"class"`  // failure class this finding explains (open only)
	What     string `json:"what"`
	Replay   string `json:"replay,omitempty"`
	Commit   string `json:"commit,omitempty"`
}

var (
	findingsOnce sync.Once
	openByClass  map[string]Finding
)

func loadFindings() {
	openByClass = map[string]Finding{}
	p := os.Getenv("VERIF_KNOWN")
	if p == "" {
		return
	}
	b, err := os.ReadFile(p)
	if err != nil {
		return
	}
	var doc struct {
		Findings []Finding `json:"findings"`
	}
	if err := json.Unmarshal(b, &doc); err != nil {
		fmt.Fprintln(os.Stderr, "known findings unreadable:", err)
		os.Exit(2)
	}
	for _, f := range doc.Findings {
		if f.Status == "open" {
			openByClass[f.Property+"|"+f.Class] = f
		}
	}
}

// KnownOpen returns the open finding that lists exactly this failure class.
func KnownOpen(property, class string) (Finding, bool) {
	findingsOnce.Do(loadFindings)
	f, ok := openByClass[property+"|"+class]
	return f, ok
}

// ---------------------------------------------------------------------------
// Isolation: panics, faults, hangs

func init() {
	debug.SetPanicOnFault(true)
}

var (
	wdStart   atomic.Int64 // unix nanos of the running call, 0 when idle
	wdOnce    sync.Once
	wdLimit   = 30 * time.Second
	journalMu sync.Mutex
)

func startWatchdog() {
	wdOnce.Do(func() {
		if s := os.Getenv("VERIF_WATCHDOG_S"); s != "" {
			if n, err := strconv.Atoi(s); err == nil && n > 0 {
				wdLimit = time.Duration(n) * time.Second
			}
		}
		go func() {
			for {
				time.Sleep(250 * time.Millisecond)
				st := wdStart.Load()
				if st != 0 && time.Since(time.Unix(0, st)) > wdLimit {
					fmt.Fprintf(os.Stderr, "VERIF-WATCHDOG: a single case exceeded %v; aborting process (journal has the case)\n", wdLimit)
					os.Exit(3)
				}
			}
		}()
	})
}

// Guard runs fn, converting panics and faults into a Failure whose class
// names the panic site inside plenc.
func Guard(classPrefix string, fn func() *Failure) (f *Failure) {
	defer func() {
		if r := recover(); r != nil {
			site := panicSite()
			stack := debug.Stack()
			cls := classPrefix + "/panic/" + site
			if site == "outside-plenc" && bytes.Contains(stack, []byte("vh.(*Sched)")) {
				cls = "harness/scheduler-panic" // a bug of the harness itself: reported as inconclusive
			}
			f = &Failure{Class: cls, Msg: fmt.Sprintf("panic: %v\n%s", r, trimStack(stack))}
		}
	}()
	return fn()
}

// panicSite finds the innermost plenc frame of the current panic.
func panicSite() string {
	pcs := make([]uintptr, 64)
	n := runtime.Callers(3, pcs)
	frames := runtime.CallersFrames(pcs[:n])
	for {
		fr, more := frames.Next()
		if strings.Contains(fr.Function, "philpearl/plenc") {
			fn := fr.Function[strings.Index(fr.Function, "philpearl/plenc")+len("philpearl/"):]
			// strip generic instantiation noise
			if i := strings.Index(fn, "["); i >= 0 {
				if j := strings.LastIndex(fn, "]"); j > i {
					fn = fn[:i] + fn[j+1:]
				}
			}
			return fn
		}
		if !more {
			break
		}
	}
	return "outside-plenc"
}

func trimStack(b []byte) string {
	s := string(b)
	if len(s) > 3000 {
		s = s[:3000] + "\n…"
	}
	return s
}

// ---------------------------------------------------------------------------
// Property runner

// Prop is one generated check: Gen draws a JSON-serialisable case, Run decides it.
type Prop[C any] struct {
	ID   string // property id, e.g. C01
	Name string // sub-check name
	Gen  func(*rapid.T) C
	Run  func(c C, x *Ctx) *Failure
	// Key overrides the distinctness key (default: JSON of the case)
	Key func(c C) []byte
	// Slow multiplies the watchdog limit for properties whose single cases are
	// long by design (e.g. histories of 17000 decodes)
	Slow int

	stats *Stats
}

type replayFile struct {
	Property string          `json:"property"`
	Check    string          `json:"check"`
	Failure  *Failure        `json:"failure,omitempty"`
	Case     json.RawMessage `json:"case"`
}

var replayers = map[string]func(raw json.RawMessage) *Failure{}
var replayerSlow = map[string]int{}

// wdBegin marks the start of a guarded call; slow > 1 grants (slow-1) extra watchdog periods.
func wdBegin(slow int) {
	t := time.Now()
	if slow > 1 {
		t = t.Add(time.Duration(slow-1) * wdLimit)
	}
	wdStart.Store(t.UnixNano())
}

func (p *Prop[C]) init() {
	if p.stats == nil {
		p.stats = NewStats(p.ID, p.Name)
		replayerSlow[p.ID+"/"+p.Name] = p.Slow
		replayers[p.ID+"/"+p.Name] = func(raw json.RawMessage) *Failure {
			var c C
			if err := json.Unmarshal(raw, &c); err != nil {
				return Fail("harness/bad-replay", "cannot decode case: %v", err)
			}
			return p.exec(c, &Ctx{})
		}
	}
}

// Register makes the property available to TestReplay without running it.
func (p *Prop[C]) Register() { p.init() }

// Stats exposes the sink (for enumerations that feed cases directly).
func (p *Prop[C]) Stats() *Stats { p.init(); return p.stats }

func (p *Prop[C]) exec(c C, x *Ctx) *Failure {
	return Guard(p.ID, func() *Failure { return p.Run(c, x) })
}

func writeFileAtomic(path string, b []byte) {
	tmp := path + ".tmp"
	if err := os.WriteFile(tmp, b, 0o644); err == nil {
		os.Rename(tmp, path)
	}
}

// One evaluates a single case with journaling, watchdog, stats and known
// finding handling. It returns a failure only if it is not a known finding.
func (p *Prop[C]) One(c C) *Failure {
	p.init()
	startWatchdog()
	raw, err := json.Marshal(c)
	if err != nil {
		panic(fmt.Sprintf("case not serialisable: %v", err))
	}
	writeJournal(p.ID, p.Name, raw)

	x := &Ctx{}
	wdBegin(p.Slow)
	f := p.exec(c, x)
	wdStart.Store(0)

	key := raw
	if p.Key != nil {
		key = p.Key(c)
	}
	if f != nil {
		if kf, ok := KnownOpen(p.ID, f.Class); ok {
			p.stats.AddExcluded(kf.ID)
			p.stats.Record(key, false, append(x.labels, "known:"+kf.ID), nil)
			return nil
		}
		if surveyMode() {
			surveyAdd(p.ID, p.Name, c, f)
			return nil
		}
		out, _ := json.MarshalIndent(replayFile{Property: p.ID, Check: p.Name, Failure: f, Case: raw}, "", " ")
		writeFileAtomic(filepath.Join(outDir(), fmt.Sprintf("fail-%s-%d.json", p.ID, os.Getpid())), out)
		return f
	}
	for _, id := range x.excluded {
		p.stats.AddExcluded(id)
	}
	if len(x.excluded) > 0 {
		x.nontrivial = false
	}
	p.stats.Record(key, x.nontrivial, x.labels, func() any {
		if x.sample != nil {
			return x.sample
		}
		// raw JSON, not a decoded any: decoding would turn 64-bit integers into float64
		return json.RawMessage(append([]byte(nil), raw...))
	})
	return nil
}

// Check drives the property with rapid for n cases.
func (p *Prop[C]) Check(t *testing.T, n int) {
	p.init()
	flag.Set("rapid.checks", strconv.Itoa(n))
	flag.Set("rapid.nofailfile", "true")
	if flag.Lookup("rapid.seed").Value.String() == "0" {
		flag.Set("rapid.seed", "1")
	}
	rapid.Check(t, func(rt *rapid.T) {
		c := p.Gen(rt)
		if f := p.One(c); f != nil {
			rt.Fatalf("%s/%s %s", p.ID, p.Name, f.Error())
		}
	})
}

// RunReplay executes the replay file named by VERIF_REPLAY.
func RunReplay(t *testing.T) {
	path := os.Getenv("VERIF_REPLAY")
	if path == "" {
		t.Skip("VERIF_REPLAY not set")
	}
	b, err := os.ReadFile(path)
	if err != nil {
		t.Fatalf("read replay: %v", err)
	}
	var rf replayFile
	if err := json.Unmarshal(b, &rf); err != nil {
		t.Fatalf("parse replay: %v", err)
	}
	fn, ok := replayers[rf.Property+"/"+rf.Check]
	if !ok {
		t.Fatalf("no replayer for %s/%s (registered: %d)", rf.Property, rf.Check, len(replayers))
	}
	startWatchdog()
	wdBegin(replayerSlow[rf.Property+"/"+rf.Check])
	f := fn(rf.Case)
	wdStart.Store(0)
	if f != nil {
		fmt.Printf("REPLAY-RESULT fail class=%s\n%s\n", f.Class, f.Msg)
		t.Fatalf("replay fails: %s", f.Class)
	}
	fmt.Println("REPLAY-RESULT ok")
}

// RequireOracle runs the oracle self-test once per process; a broken oracle
// ends the process with status 4 (the driver reports "inconclusive").
var oracleOnce sync.Once

func RequireOracle() {
	oracleOnce.Do(func() {
		if err := OracleSelfTest(); err != nil {
			fmt.Fprintln(os.Stderr, "ORACLE-SELFTEST-FAILED:", err)
			os.Exit(4)
		}
	})
}

// AddEnumerated accounts n cases of an exhaustive enumeration, of which
// nontrivial are non-trivial; they are pairwise distinct by construction.
func (s *Stats) AddEnumerated(n, nontrivial int64) {
	s.mu.Lock()
	s.Cases += n
	s.NonTrivial += nontrivial
	s.ExtraDistinct += nontrivial
	s.mu.Unlock()
}

// AddSample stores a sample case without counting it.
func (s *Stats) AddSample(c any) {
	s.mu.Lock()
	if len(s.Samples) < 6 {
		s.Samples = append(s.Samples, sampleEntry{uint64(len(s.Samples)), c})
	}
	s.mu.Unlock()
}

// WriteFailure stores a replay file for a failure found outside Prop.One.
func WriteFailure(id, check string, c any, f *Failure) {
	raw, _ := json.Marshal(c)
	out, _ := json.MarshalIndent(replayFile{Property: id, Check: check, Failure: f, Case: raw}, "", " ")
	writeFileAtomic(filepath.Join(outDir(), fmt.Sprintf("fail-%s-%d.json", id, os.Getpid())), out)
}

var (
	journalFile *os.File
	journalLen  int
	journalBuf  []byte
)

// writeJournal records the case about to run, with one pwrite (the file is
// kept open; it is truncated only when the new record is shorter).
func writeJournal(id, check string, raw []byte) {
	journalMu.Lock()
	defer journalMu.Unlock()
	if journalFile == nil {
		f, err := os.Create(filepath.Join(outDir(), fmt.Sprintf("journal-%d.json", os.Getpid())))
		if err != nil {
			return
		}
		journalFile = f
	}
	b := journalBuf[:0]
	b = append(b, `{"property":"`...)
	b = append(b, id...)
	b = append(b, `","check":"`...)
	b = append(b, check...)
	b = append(b, `","case":`...)
	b = append(b, raw...)
	b = append(b, '}')
	journalBuf = b
	journalFile.WriteAt(b, 0)
	if len(b) < journalLen {
		journalFile.Truncate(int64(len(b)))
	}
	journalLen = len(b)
}

// Try evaluates one case of an enumeration: no journal, no statistics. A
// failure that is not a known finding is written as a replay file.
func (p *Prop[C]) Try(c C) *Failure {
	p.init()
	startWatchdog()
	if raw, err := json.Marshal(c); err == nil {
		writeJournal(p.ID, p.Name, raw)
	}
	wdBegin(p.Slow)
	f := p.exec(c, &Ctx{})
	wdStart.Store(0)
	if f == nil {
		return nil
	}
	if surveyMode() {
		surveyAdd(p.ID, p.Name, c, f)
		return nil
	}
	if kf, ok := KnownOpen(p.ID, f.Class); ok {
		p.stats.AddExcluded(kf.ID)
		return nil
	}
	WriteFailure(p.ID, p.Name, c, f)
	return f
}

// Survey mode (VERIF_SURVEY=1, development aid): failures do not stop the
// search; one example per failure class is kept and printed at the end.
func surveyMode() bool { return os.Getenv("VERIF_SURVEY") != "" }

type surveyEntry struct {
	Count int
	File  string
	Size  int
}

var (
	surveyMu sync.Mutex
	survey   = map[string]*surveyEntry{}
)

func surveyAdd(id, check string, c any, f *Failure) {
	raw, _ := json.Marshal(c)
	surveyMu.Lock()
	defer surveyMu.Unlock()
	e := survey[f.Class]
	if e == nil {
		e = &surveyEntry{Size: 1 << 30}
		survey[f.Class] = e
	}
	e.Count++
	if len(raw) < e.Size { // keep the smallest example
		e.Size = len(raw)
		e.File = filepath.Join(outDir(), "survey-"+sanitize(f.Class)+".json")
		out, _ := json.MarshalIndent(replayFile{Property: id, Check: check, Failure: f, Case: raw}, "", " ")
		os.WriteFile(e.File, out, 0o644)
	}
}

// PrintSurvey lists the failure classes seen in survey mode.
func PrintSurvey() {
	surveyMu.Lock()
	defer surveyMu.Unlock()
	if len(survey) == 0 {
		return
	}
	var keys []string
	for k := range survey {
		keys = append(keys, k)
	}
	sort.Strings(keys)
	fmt.Println("SURVEY of failure classes:")
	for _, k := range keys {
		fmt.Printf("  %7d  %s  (%s)\n", survey[k].Count, k, survey[k].File)
	}
}
