package vh

import (
	"fmt"
	"reflect"
	"strconv"
	"strings"
	"time"
	"unsafe"

	"github.com/unravelin/null"
)

// Kind names a type constructor as plenc sees it.
type Kind string

const (
	KBool    Kind = "bool"
	KInt     Kind = "int"
	KInt8    Kind = "int8"
	KInt16   Kind = "int16"
	KInt32   Kind = "int32"
	KInt64   Kind = "int64"
	KUint    Kind = "uint"
	KUint8   Kind = "uint8"
	KUint16  Kind = "uint16"
	KUint32  Kind = "uint32"
	KUint64  Kind = "uint64"
	KFloat32 Kind = "float32"
	KFloat64 Kind = "float64"
	KString  Kind = "string"
	KBytes   Kind = "bytes"
	KTime    Kind = "time"

	KNullInt    Kind = "null.Int"
	KNullBool   Kind = "null.Bool"
	KNullFloat  Kind = "null.Float"
	KNullString Kind = "null.String"
	KNullTime   Kind = "null.Time"

	KPtr    Kind = "ptr"
	KSlice  Kind = "slice"
	KMap    Kind = "map"
	KStruct Kind = "struct"
	// KNamed refers to a compiled type in the catalog (Name). Its structure is
	// found through Under().
	KNamed Kind = "named"
	// KUnsup is a Go kind plenc must reject (Name: complex64, complex128,
	// array, chan, func, interface, uintptr, unsafeptr).
	KUnsup Kind = "unsupported"
)

// TSpec is a JSON-serialisable description of a Go type.
type TSpec struct {
	Kind   Kind    `json:"k"`
	Elem   *TSpec  `json:"e,omitempty"`
	Key    *TSpec  `json:"key,omitempty"`
	Fields []Field `json:"f,omitempty"`
	Name   string  `json:"n,omitempty"`
}

// Field is one struct field.
type Field struct {
	Name string `json:"name"`
	Type *TSpec `json:"t"`
	// Plenc is the raw content of the plenc tag; HasPlenc false means no tag.
	Plenc    string `json:"plenc,omitempty"`
	HasPlenc bool   `json:"hp,omitempty"`
	// JSON is the raw content of the json tag ("" = none).
	JSON string `json:"json,omitempty"`
	// Unexported fields get a PkgPath when built.
	Unexported bool `json:"unexp,omitempty"`
}

// Enc reports whether the field is encoded, and with which index and option.
// It only understands well-formed tags ("N" or "N,opt"); callers that generate
// malformed tags do not use it.
func (f Field) Enc() (index int, opt string, ok bool) {
	if f.Unexported || !f.HasPlenc || f.Plenc == "-" {
		return 0, "", false
	}
	tag := f.Plenc
	if c := strings.IndexByte(tag, ','); c >= 0 {
		opt = tag[c+1:]
		tag = tag[:c]
	}
	i, err := strconv.Atoi(tag)
	if err != nil {
		panic("Enc on malformed tag " + f.Plenc)
	}
	return i, opt, true
}

// OutName is the name the descriptor/JSON rendering uses for the field.
func (f Field) OutName() string {
	if n, _, _ := strings.Cut(f.JSON, ","); n != "" {
		return n
	}
	return f.Name
}

func T(k Kind) *TSpec             { return &TSpec{Kind: k} }
func PtrOf(e *TSpec) *TSpec       { return &TSpec{Kind: KPtr, Elem: e} }
func SliceOf(e *TSpec) *TSpec     { return &TSpec{Kind: KSlice, Elem: e} }
func MapOf(k, v *TSpec) *TSpec    { return &TSpec{Kind: KMap, Key: k, Elem: v} }
func StructOf(fs ...Field) *TSpec { return &TSpec{Kind: KStruct, Fields: fs} }
func NamedT(name string) *TSpec   { return &TSpec{Kind: KNamed, Name: name} }
func Unsup(name string) *TSpec    { return &TSpec{Kind: KUnsup, Name: name} }
func F(name string, idx int, t *TSpec) Field {
	return Field{Name: name, Type: t, Plenc: strconv.Itoa(idx), HasPlenc: true}
}
func FOpt(name string, idx int, opt string, t *TSpec) Field {
	return Field{Name: name, Type: t, Plenc: strconv.Itoa(idx) + "," + opt, HasPlenc: true}
}

// Under resolves named types to their structural description.
func (t *TSpec) Under() *TSpec {
	for t.Kind == KNamed {
		e, ok := Catalog[t.Name]
		if !ok {
			panic("unknown catalog type " + t.Name)
		}
		t = e.Spec
	}
	return t
}

// IsNamed reports whether the Go type is a named (defined) type other than the
// builtin/time/null ones.
func (t *TSpec) IsNamed() bool { return t.Kind == KNamed }

var scalarTypes = map[Kind]reflect.Type{
	KBool: reflect.TypeOf(false), KInt: reflect.TypeOf(int(0)), KInt8: reflect.TypeOf(int8(0)),
	KInt16: reflect.TypeOf(int16(0)), KInt32: reflect.TypeOf(int32(0)), KInt64: reflect.TypeOf(int64(0)),
	KUint: reflect.TypeOf(uint(0)), KUint8: reflect.TypeOf(uint8(0)), KUint16: reflect.TypeOf(uint16(0)),
	KUint32: reflect.TypeOf(uint32(0)), KUint64: reflect.TypeOf(uint64(0)),
	KFloat32: reflect.TypeOf(float32(0)), KFloat64: reflect.TypeOf(float64(0)),
	KString: reflect.TypeOf(""), KBytes: reflect.TypeOf([]byte(nil)), KTime: reflect.TypeOf(time.Time{}),
	KNullInt: reflect.TypeOf(null.Int{}), KNullBool: reflect.TypeOf(null.Bool{}), KNullFloat: reflect.TypeOf(null.Float{}),
	KNullString: reflect.TypeOf(null.String{}), KNullTime: reflect.TypeOf(null.Time{}),
}

var unsupTypes = map[string]reflect.Type{
	"complex64":  reflect.TypeOf(complex64(0)),
	"complex128": reflect.TypeOf(complex128(0)),
	"array":      reflect.TypeOf([2]int{}),
	"array1":     reflect.TypeOf([1]string{}),
	"chan":       reflect.TypeOf((chan int)(nil)),
	"func":       reflect.TypeOf((func())(nil)),
	"interface":  reflect.TypeOf((*any)(nil)).Elem(),
	"error":      reflect.TypeOf((*error)(nil)).Elem(),
	"uintptr":    reflect.TypeOf(uintptr(0)),
	"unsafeptr":  reflect.TypeOf(unsafe.Pointer(nil)),
}

// HarnessPkgPath is the PkgPath given to unexported run-time fields.
const HarnessPkgPath = "verifharness/vh"

// Build constructs the run-time Go type.
func (t *TSpec) Build() reflect.Type {
	switch t.Kind {
	case KPtr:
		return reflect.PointerTo(t.Elem.Build())
	case KSlice:
		return reflect.SliceOf(t.Elem.Build())
	case KMap:
		return reflect.MapOf(t.Key.Build(), t.Elem.Build())
	case KStruct:
		fs := make([]reflect.StructField, len(t.Fields))
		for i, f := range t.Fields {
			sf := reflect.StructField{Name: f.Name, Type: f.Type.Build(), Tag: reflect.StructTag(f.TagString())}
			if f.Unexported {
				sf.PkgPath = HarnessPkgPath
			}
			fs[i] = sf
		}
		return reflect.StructOf(fs)
	case KNamed:
		e, ok := Catalog[t.Name]
		if !ok {
			panic("unknown catalog type " + t.Name)
		}
		return e.Type
	case KUnsup:
		rt, ok := unsupTypes[t.Name]
		if !ok {
			panic("unknown unsupported kind " + t.Name)
		}
		return rt
	default:
		rt, ok := scalarTypes[t.Kind]
		if !ok {
			panic("unknown kind " + string(t.Kind))
		}
		return rt
	}
}

// TagString renders the struct tag.
func (f Field) TagString() string {
	var parts []string
	if f.HasPlenc {
		parts = append(parts, "plenc:"+strconv.Quote(f.Plenc))
	}
	if f.JSON != "" {
		parts = append(parts, "json:"+strconv.Quote(f.JSON))
	}
	return strings.Join(parts, " ")
}

// String renders a compact Go-like description (for messages and labels).
func (t *TSpec) String() string {
	switch t.Kind {
	case KPtr:
		return "*" + t.Elem.String()
	case KSlice:
		return "[]" + t.Elem.String()
	case KMap:
		return "map[" + t.Key.String() + "]" + t.Elem.String()
	case KStruct:
		var b strings.Builder
		b.WriteString("struct{")
		for i, f := range t.Fields {
			if i > 0 {
				b.WriteString("; ")
			}
			fmt.Fprintf(&b, "%s %s", f.Name, f.Type.String())
			if ts := f.TagString(); ts != "" {
				fmt.Fprintf(&b, " `%s`", ts)
			}
		}
		b.WriteString("}")
		return b.String()
	case KNamed:
		return t.Name
	case KUnsup:
		return "unsup:" + t.Name
	}
	return string(t.Kind)
}

// Walk calls fn on t and every type reachable structurally (named types are
// entered once each).
func (t *TSpec) Walk(fn func(*TSpec)) {
	seen := map[string]bool{}
	var rec func(*TSpec)
	rec = func(t *TSpec) {
		fn(t)
		switch t.Kind {
		case KPtr, KSlice:
			rec(t.Elem)
		case KMap:
			rec(t.Key)
			rec(t.Elem)
		case KStruct:
			for _, f := range t.Fields {
				rec(f.Type)
			}
		case KNamed:
			if !seen[t.Name] {
				seen[t.Name] = true
				rec(t.Under())
			}
		}
	}
	rec(t)
}

// Has reports whether any reachable type satisfies pred.
func (t *TSpec) Has(pred func(*TSpec) bool) bool {
	found := false
	t.Walk(func(x *TSpec) {
		if pred(x) {
			found = true
		}
	})
	return found
}

// IsRecursive reports whether a named type is reachable from itself.
func (t *TSpec) IsRecursive() bool {
	rec := false
	t.Walk(func(x *TSpec) {
		if x.Kind == KNamed && Catalog[x.Name].Recursive {
			rec = true
		}
	})
	return rec
}

func (k Kind) IsSignedInt() bool {
	switch k {
	case KInt, KInt8, KInt16, KInt32, KInt64:
		return true
	}
	return false
}

func (k Kind) IsUnsignedInt() bool {
	switch k {
	case KUint, KUint8, KUint16, KUint32, KUint64:
		return true
	}
	return false
}

func (k Kind) IsFloat() bool { return k == KFloat32 || k == KFloat64 }

func (k Kind) IsNull() bool {
	switch k {
	case KNullInt, KNullBool, KNullFloat, KNullString, KNullTime:
		return true
	}
	return false
}

// Bits returns the width of an integer kind.
func (k Kind) Bits() int {
	switch k {
	case KInt8, KUint8:
		return 8
	case KInt16, KUint16:
		return 16
	case KInt32, KUint32:
		return 32
	}
	return 64
}
