package vh

// Reference semantics of decoding, on Val. Written from the property
// statements (C01 normalisations, C03 projection, C10 merge rules) and the
// README; never calls plenc.

// Normalise returns the value a decode of Marshal(v) into a fresh variable
// must yield.
func Normalise(t *TSpec, v Val, cfg Cfg) Val {
	return MergeX(t, t, ZeroVal(t), v, cfg)
}

// Merge returns the value a target of type t holding prior must hold after
// decoding Marshal(v) into it.
func Merge(t *TSpec, prior, v Val, cfg Cfg) Val {
	return MergeX(t, t, prior, v, cfg)
}

// MergeX is the general form: v is a value of type src, the target has type dst
// (a schema-evolved variant of src: struct fields correspond by plenc index,
// all other structure identical) and holds prior.
func MergeX(src, dst *TSpec, prior, v Val, cfg Cfg) Val {
	return mergeX(src, dst, "", prior, v, cfg, true)
}

func clone(v Val) Val {
	o := v
	if v.S != nil {
		o.S = append([]byte{}, v.S...)
	}
	if v.T != nil {
		t := *v.T
		o.T = &t
	}
	if v.P != nil {
		p := clone(*v.P)
		o.P = &p
	}
	if v.L != nil {
		o.L = make([]Val, len(v.L))
		for i := range v.L {
			o.L[i] = clone(v.L[i])
		}
	}
	if v.M != nil {
		o.M = make([]KV, len(v.M))
		for i := range v.M {
			o.M[i] = KV{clone(v.M[i].K), clone(v.M[i].V)}
		}
	}
	return o
}

// Clone deep-copies a value.
func Clone(v Val) Val { return clone(v) }

func utc(tv *TimeVal) *TimeVal {
	if tv == nil {
		return &TimeVal{Sec: ZeroUnix}
	}
	return &TimeVal{Sec: tv.Sec, Nsec: tv.Nsec}
}

// plain: the position is one where omission rules apply (struct field, map key
// or value, top level); false inside slices and behind pointers / null types.
func mergeX(s, d *TSpec, opt string, prior, v Val, cfg Cfg, plain bool) Val {
	if plain && RefOmit(s, v) {
		return clone(prior)
	}
	su, du := s.Under(), d.Under()
	switch su.Kind {
	case KBool:
		return Val{B: v.B}
	case KInt, KInt8, KInt16, KInt32, KInt64:
		return Val{I: v.I}
	case KUint, KUint8, KUint16, KUint32, KUint64:
		return Val{U: v.U}
	case KFloat32, KFloat64:
		return Val{F: v.F}
	case KString:
		return Val{S: append([]byte{}, v.S...)}
	case KBytes:
		if len(v.S) == 0 {
			return Val{Nil: true}
		}
		return Val{S: append([]byte{}, v.S...)}
	case KTime:
		return Val{T: utc(v.T)}
	case KNullInt, KNullBool, KNullFloat, KNullString, KNullTime:
		if v.Nil { // only reachable when not plain: no presence inside slices
			return Val{P: ptrTo(ZeroVal(nullInner(su.Kind)))}
		}
		in := nullInner(su.Kind)
		p := mergeX(in, in, "", ZeroVal(in), *v.P, cfg, false)
		if su.Kind == KNullString && p.S == nil {
			p.S = []byte{}
		}
		return Val{P: &p}
	case KPtr:
		pz := ZeroVal(du.Elem)
		if !prior.Nil && prior.P != nil {
			pz = *prior.P
		}
		p := mergeX(su.Elem, du.Elem, opt, pz, *v.P, cfg, false)
		return Val{P: &p}
	case KStruct:
		out := clone(prior)
		if out.L == nil {
			out = ZeroVal(d)
		}
		for j, fd := range du.Fields {
			idx, _, ok := fd.Enc()
			if !ok {
				continue
			}
			for i, fs := range su.Fields {
				sidx, sopt, sok := fs.Enc()
				if sok && sidx == idx {
					out.L[j] = mergeX(fs.Type, fd.Type, sopt, out.L[j], v.L[i], cfg, true)
					break
				}
			}
		}
		return out
	case KSlice:
		form := RefSliceForm(su, opt, cfg)
		elemPtr := su.Elem.Under().Kind == KPtr
		var out []Val
		if form == formProto && !prior.Nil {
			out = clone(prior).L
		}
		for _, e := range v.L {
			if elemPtr && e.Nil {
				switch form {
				case formPackedVarint, formProto:
					continue // dropped
				default:
					out = append(out, Val{P: ptrTo(ZeroVal(du.Elem.Under().Elem))})
					continue
				}
			}
			out = append(out, mergeX(su.Elem, du.Elem, "", ZeroVal(du.Elem), e, cfg, false))
		}
		if len(out) == 0 {
			if prior.Nil {
				return Val{Nil: true}
			}
			return Val{L: []Val{}}
		}
		return Val{L: out}
	case KMap:
		var out []KV
		if !prior.Nil {
			out = clone(prior).M
		}
		// index by Go key equality (-0 and +0 are the same float key)
		pos := make(map[string]int, len(out)+len(v.M))
		for i := range out {
			pos[normKeyForDedupe(du.Key, out[i].K).key(du.Key)] = i
		}
		for _, kv := range v.M {
			k := mergeX(su.Key, du.Key, "", ZeroVal(du.Key), kv.K, cfg, true)
			ks := normKeyForDedupe(du.Key, k).key(du.Key)
			if found, ok := pos[ks]; ok {
				out[found].K = k // assignment stores the new key's bits (matters for -0 / +0)
				if RefOmit(su.Elem, kv.V) {
					out[found].V = ZeroVal(du.Elem)
				} else {
					out[found].V = mergeX(su.Elem, du.Elem, "", out[found].V, kv.V, cfg, true)
				}
			} else {
				pos[ks] = len(out)
				out = append(out, KV{K: k, V: mergeX(su.Elem, du.Elem, "", ZeroVal(du.Elem), kv.V, cfg, true)})
			}
		}
		if len(out) == 0 {
			if prior.Nil && (opt == "proto") {
				return Val{Nil: true}
			}
			return Val{M: []KV{}}
		}
		return Val{M: out}
	}
	if su.Kind == KUnsup {
		return clone(prior)
	}
	panic("mergeX: kind " + string(su.Kind))
}

func ptrTo(v Val) *Val { return &v }

// EqualLoose is Equal except that nil and empty slices / byte slices are
// interchangeable (used where a re-used target legitimately keeps an empty,
// non-nil slice).
func EqualLoose(t *TSpec, a, b Val) bool {
	return Diff(t, looseNorm(t, a), looseNorm(t, b)) == ""
}

func DiffLoose(t *TSpec, a, b Val) string {
	return Diff(t, looseNorm(t, a), looseNorm(t, b))
}

func looseNorm(t *TSpec, v Val) Val {
	u := t.Under()
	switch u.Kind {
	case KBytes:
		if len(v.S) == 0 {
			return Val{Nil: true}
		}
	case KPtr:
		if !v.Nil {
			p := looseNorm(u.Elem, *v.P)
			return Val{P: &p}
		}
	case KSlice:
		if len(v.L) == 0 {
			return Val{Nil: true}
		}
		l := make([]Val, len(v.L))
		for i := range l {
			l[i] = looseNorm(u.Elem, v.L[i])
		}
		return Val{L: l}
	case KStruct:
		l := make([]Val, len(v.L))
		for i, f := range u.Fields {
			l[i] = looseNorm(f.Type, v.L[i])
		}
		return Val{L: l}
	case KMap:
		if v.Nil {
			return v
		}
		m := make([]KV, len(v.M))
		for i, kv := range v.M {
			m[i] = KV{looseNorm(u.Key, kv.K), looseNorm(u.Elem, kv.V)}
		}
		return Val{M: m}
	}
	return v
}
