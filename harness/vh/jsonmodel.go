package vh

// JSON data-model rendering of a value (C13) and expected descriptor (C14),
// written from the property statements. Never calls plenc.

import (
	"bytes"
	"encoding/json"
	"fmt"
	"io"
	"math"
	"strconv"
	"time"
	"unicode/utf8"
)

// JV is a JSON value with ordered object members.
type JV struct {
	Kind  string // num str bool null obj arr
	Num   string // literal text (parsed) / expected integer text
	Str   string
	B     bool
	Pairs []JPair
	Elems []JV
	// expectation modifiers
	Float     *float64 // expected: a number equal to this float
	Time      *TimeVal // expected: an RFC 3339 string for this instant
	Unordered bool     // expected: members / elements derive from a Go map
	// OptionalEmpty lists members that may appear with the value [] although
	// the (normalised) slice is nil: a slice holding only nil pointers to
	// integers is written as a present, empty field.
	OptionalEmpty []string
}

type JPair struct {
	K string
	V JV
}

// ParseJSON reads exactly one document into a JV.
func ParseJSON(doc []byte) (JV, error) {
	dec := json.NewDecoder(bytes.NewReader(doc))
	dec.UseNumber()
	v, err := parseJV(dec)
	if err != nil {
		return JV{}, err
	}
	if _, err := dec.Token(); err != io.EOF {
		return JV{}, fmt.Errorf("more than one document (%v)", err)
	}
	return v, nil
}

func parseJV(dec *json.Decoder) (JV, error) {
	tok, err := dec.Token()
	if err != nil {
		return JV{}, err
	}
	switch t := tok.(type) {
	case json.Number:
		return JV{Kind: "num", Num: string(t)}, nil
	case string:
		return JV{Kind: "str", Str: t}, nil
	case bool:
		return JV{Kind: "bool", B: t}, nil
	case nil:
		return JV{Kind: "null"}, nil
	case json.Delim:
		switch t {
		case '{':
			o := JV{Kind: "obj"}
			for dec.More() {
				kt, err := dec.Token()
				if err != nil {
					return JV{}, err
				}
				ks, ok := kt.(string)
				if !ok {
					return JV{}, fmt.Errorf("object key %v", kt)
				}
				v, err := parseJV(dec)
				if err != nil {
					return JV{}, err
				}
				o.Pairs = append(o.Pairs, JPair{ks, v})
			}
			_, err := dec.Token()
			return o, err
		case '[':
			a := JV{Kind: "arr"}
			for dec.More() {
				v, err := parseJV(dec)
				if err != nil {
					return JV{}, err
				}
				a.Elems = append(a.Elems, v)
			}
			_, err := dec.Token()
			return a, err
		}
	}
	return JV{}, fmt.Errorf("unexpected token %v", tok)
}

// JSONStringModel: what a JSON parser returns for raw bytes written as a string.
func JSONStringModel(s []byte) string {
	if utf8.Valid(s) {
		return string(s)
	}
	var b []byte
	for len(s) > 0 {
		r, size := utf8.DecodeRune(s)
		if r == utf8.RuneError && size == 1 {
			b = append(b, "�"...)
		} else {
			b = append(b, s[:size]...)
		}
		s = s[size:]
	}
	return string(b)
}

// ExpectedJSON renders (already normalised) value v of type t in the JSON
// data model of property C13. Top level and elements are always rendered;
// struct fields and map keys/values that the encoding omits are absent.
func ExpectedJSON(t *TSpec, opt string, v Val) JV {
	u := t.Under()
	switch u.Kind {
	case KBool:
		return JV{Kind: "bool", B: v.B}
	case KInt, KInt8, KInt16, KInt32, KInt64:
		return JV{Kind: "num", Num: strconv.FormatInt(v.I, 10)}
	case KUint, KUint8, KUint16, KUint32, KUint64:
		return JV{Kind: "num", Num: strconv.FormatUint(v.U, 10)}
	case KFloat32:
		f := float64(math.Float32frombits(uint32(v.F)))
		return JV{Kind: "num", Float: &f}
	case KFloat64:
		f := math.Float64frombits(v.F)
		return JV{Kind: "num", Float: &f}
	case KString, KBytes:
		return JV{Kind: "str", Str: JSONStringModel(v.S)}
	case KTime:
		tv := v.T
		if tv == nil {
			tv = &TimeVal{Sec: ZeroUnix}
		}
		return JV{Kind: "str", Time: tv}
	case KNullInt, KNullBool, KNullFloat, KNullString, KNullTime:
		if v.Nil {
			return JV{Kind: "null"}
		}
		return ExpectedJSON(nullInner(u.Kind), "", *v.P)
	case KPtr:
		if v.Nil {
			return JV{Kind: "null"}
		}
		return ExpectedJSON(u.Elem, opt, *v.P)
	case KStruct:
		o := JV{Kind: "obj"}
		for i, f := range u.Fields {
			_, fopt, ok := f.Enc()
			if !ok {
				continue
			}
			if RefOmit(f.Type, v.L[i]) {
				if k := f.Type.Under().Kind; k == KSlice {
					o.OptionalEmpty = append(o.OptionalEmpty, f.OutName())
				}
				continue
			}
			o.Pairs = append(o.Pairs, JPair{f.OutName(), ExpectedJSON(f.Type, fopt, v.L[i])})
		}
		return o
	case KSlice:
		a := JV{Kind: "arr"}
		eu := u.Elem.Under()
		for _, e := range v.L {
			if eu.Kind == KPtr && e.Nil {
				if RefWireType(u.Elem, "", Cfg{}) == WTVarInt {
					continue // nil pointers to integers are not encoded
				}
				// other nil pointers are encoded as an empty body
				a.Elems = append(a.Elems, emptyBodyJSON(eu.Elem))
				continue
			}
			a.Elems = append(a.Elems, ExpectedJSON(u.Elem, "", e))
		}
		return a
	case KMap:
		if u.Key.Under().Kind == KString {
			o := JV{Kind: "obj", Unordered: true}
			for _, kv := range v.M {
				val := kv.V
				if RefOmit(u.Elem, val) {
					val = ZeroVal(u.Elem) // an omitted value stands for the zero value (-0 becomes 0)
				}
				o.Pairs = append(o.Pairs, JPair{JSONStringModel(kv.K.S), ExpectedJSON(u.Elem, "", val)})
			}
			return o
		}
		a := JV{Kind: "arr", Unordered: true}
		for _, kv := range v.M {
			e := JV{Kind: "obj"}
			if !RefOmit(u.Key, kv.K) {
				e.Pairs = append(e.Pairs, JPair{"key", ExpectedJSON(u.Key, "", kv.K)})
			}
			if !RefOmit(u.Elem, kv.V) {
				e.Pairs = append(e.Pairs, JPair{"value", ExpectedJSON(u.Elem, "", kv.V)})
			}
			a.Elems = append(a.Elems, e)
		}
		return a
	}
	panic("ExpectedJSON: kind " + string(u.Kind))
}

// emptyBodyJSON is the rendering of an element whose encoded body is empty.
func emptyBodyJSON(t *TSpec) JV {
	u := t.Under()
	switch u.Kind {
	case KStruct:
		return JV{Kind: "obj"}
	case KSlice:
		return JV{Kind: "arr"}
	case KTime:
		return JV{Kind: "str", Time: &TimeVal{Sec: ZeroUnix}}
	case KPtr:
		return emptyBodyJSON(u.Elem)
	}
	return JV{Kind: "str", Str: ""}
}

// MatchJSON compares an expectation with a parsed document.
func MatchJSON(want, got JV, path string) error {
	if want.Float != nil {
		if got.Kind != "num" {
			return fmt.Errorf("%s: want number %v, got %s", path, *want.Float, got.Kind)
		}
		f, err := strconv.ParseFloat(got.Num, 64)
		if err != nil || f != *want.Float || math.Signbit(f) != math.Signbit(*want.Float) {
			return fmt.Errorf("%s: want number %v, got %s", path, *want.Float, got.Num)
		}
		return nil
	}
	if want.Time != nil {
		if got.Kind != "str" {
			return fmt.Errorf("%s: want time string, got %s", path, got.Kind)
		}
		tm, err := time.Parse(time.RFC3339Nano, got.Str)
		if err != nil || !tm.Equal(want.Time.Time()) {
			return fmt.Errorf("%s: want time %v, got %q (%v)", path, want.Time.Time().UTC(), got.Str, err)
		}
		return nil
	}
	if want.Kind != got.Kind {
		return fmt.Errorf("%s: want %s, got %s", path, want.Kind, got.Kind)
	}
	switch want.Kind {
	case "num":
		if want.Num != got.Num {
			return fmt.Errorf("%s: want %s, got %s", path, want.Num, got.Num)
		}
	case "str":
		if want.Str != got.Str {
			return fmt.Errorf("%s: want %q, got %q", path, want.Str, got.Str)
		}
	case "bool":
		if want.B != got.B {
			return fmt.Errorf("%s: want %v, got %v", path, want.B, got.B)
		}
	case "arr":
		if len(want.Elems) != len(got.Elems) {
			return fmt.Errorf("%s: want %d elements, got %d", path, len(want.Elems), len(got.Elems))
		}
		if !want.Unordered {
			for i := range want.Elems {
				if err := MatchJSON(want.Elems[i], got.Elems[i], fmt.Sprintf("%s[%d]", path, i)); err != nil {
					return err
				}
			}
			return nil
		}
		if !perfectMatching(len(want.Elems), func(i, j int) bool { return MatchJSON(want.Elems[i], got.Elems[j], path) == nil }) {
			return fmt.Errorf("%s: the elements cannot be matched one to one with the expected entries", path)
		}
	case "obj":
		if len(want.OptionalEmpty) > 0 && len(got.Pairs) > len(want.Pairs) {
			var kept []JPair
			for _, p := range got.Pairs {
				drop := false
				if p.V.Kind == "arr" && len(p.V.Elems) == 0 {
					for _, k := range want.OptionalEmpty {
						if k == p.K {
							drop = true
						}
					}
				}
				if !drop {
					kept = append(kept, p)
				}
			}
			got.Pairs = kept
		}
		if len(want.Pairs) != len(got.Pairs) {
			return fmt.Errorf("%s: want %d members %v, got %d %v", path, len(want.Pairs), pairKeys(want), len(got.Pairs), pairKeys(got))
		}
		if !want.Unordered {
			for i := range want.Pairs {
				if want.Pairs[i].K != got.Pairs[i].K {
					return fmt.Errorf("%s: member %d is %q, want %q", path, i, got.Pairs[i].K, want.Pairs[i].K)
				}
				if err := MatchJSON(want.Pairs[i].V, got.Pairs[i].V, path+"."+want.Pairs[i].K); err != nil {
					return err
				}
			}
			return nil
		}
		if !perfectMatching(len(want.Pairs), func(i, j int) bool {
			return want.Pairs[i].K == got.Pairs[j].K && MatchJSON(want.Pairs[i].V, got.Pairs[j].V, path) == nil
		}) {
			return fmt.Errorf("%s: the members %v cannot be matched one to one with the expected %v", path, pairKeys(got), pairKeys(want))
		}
	}
	return nil
}

// perfectMatching decides whether n expected items can be matched one to one
// with n observed items (augmenting paths; duplicates after U+FFFD replacement
// make greedy matching wrong).
func perfectMatching(n int, ok func(i, j int) bool) bool {
	matchOf := make([]int, n) // observed j -> expected i
	for j := range matchOf {
		matchOf[j] = -1
	}
	var try func(i int, seen []bool) bool
	try = func(i int, seen []bool) bool {
		for j := 0; j < n; j++ {
			if seen[j] || !ok(i, j) {
				continue
			}
			seen[j] = true
			if matchOf[j] < 0 || try(matchOf[j], seen) {
				matchOf[j] = i
				return true
			}
		}
		return false
	}
	for i := 0; i < n; i++ {
		if !try(i, make([]bool, n)) {
			return false
		}
	}
	return true
}

func pairKeys(v JV) []string {
	var ks []string
	for _, p := range v.Pairs {
		ks = append(ks, p.K)
	}
	return ks
}

// ---------------------------------------------------------------------------
// Expected descriptor (C14). Mirrors plenccodec.Descriptor without importing it.

type XDesc struct {
	Index            int
	Name             string
	Type             string // Int Uint FlatInt Float32 Float64 String Bool Time Struct Slice
	TypeName         string
	AnyTypeName      bool // synthetic name, not asserted (map entries)
	Elements         []XDesc
	ExplicitPresence bool
	LogicalType      string // "" Timestamp Map MapEntry
}

// ExpectedDescriptor builds the descriptor the type definition implies.
// typeName gives the Go name of a struct type ("" for run-time types).
func ExpectedDescriptor(t *TSpec, opt string) XDesc {
	u := t.Under()
	switch u.Kind {
	case KBool, KNullBool:
		return XDesc{Type: "Bool", ExplicitPresence: u.Kind.IsNull()}
	case KInt, KInt8, KInt16, KInt32, KInt64:
		if opt == "flat" {
			return XDesc{Type: "FlatInt"}
		}
		return XDesc{Type: "Int"}
	case KNullInt:
		return XDesc{Type: "Int", ExplicitPresence: true}
	case KUint, KUint8, KUint16, KUint32, KUint64:
		return XDesc{Type: "Uint"}
	case KFloat32:
		return XDesc{Type: "Float32"}
	case KFloat64, KNullFloat:
		return XDesc{Type: "Float64", ExplicitPresence: u.Kind.IsNull()}
	case KString, KBytes, KNullString:
		return XDesc{Type: "String", ExplicitPresence: u.Kind.IsNull()}
	case KTime, KNullTime:
		return XDesc{Type: "Time", LogicalType: "Timestamp", ExplicitPresence: u.Kind.IsNull()}
	case KPtr:
		d := ExpectedDescriptor(u.Elem, opt)
		d.ExplicitPresence = true
		return d
	case KStruct:
		d := XDesc{Type: "Struct"}
		if t.Kind == KNamed {
			d.TypeName = Catalog[t.Name].Type.Name()
		}
		for _, f := range u.Fields {
			idx, fopt, ok := f.Enc()
			if !ok {
				continue
			}
			e := ExpectedDescriptor(f.Type, fopt)
			e.Index = idx
			e.Name = f.OutName()
			d.Elements = append(d.Elements, e)
		}
		return d
	case KSlice:
		return XDesc{Type: "Slice", Elements: []XDesc{ExpectedDescriptor(u.Elem, "")}}
	case KMap:
		k := ExpectedDescriptor(u.Key, "")
		k.Index, k.Name = 1, "key"
		v := ExpectedDescriptor(u.Elem, "")
		v.Index, v.Name = 2, "value"
		return XDesc{Type: "Slice", LogicalType: "Map", Elements: []XDesc{{Type: "Struct", LogicalType: "MapEntry", AnyTypeName: true, Elements: []XDesc{k, v}}}}
	}
	panic("ExpectedDescriptor: kind " + string(u.Kind))
}
