package vh

// An independent reader for *standard* protobuf wire format, driven by a
// minimal schema derived from the type (which field numbers are messages,
// packed or repeated). It shares no code with the plenc walker in walk.go.

import (
	"encoding/binary"
	"fmt"
)

type pKind int

const (
	pVarint pKind = iota
	pFixed32
	pFixed64
	pBytes
	pMessage
	pPackedVarint
	pPackedFixed32
	pPackedFixed64
	pTimestamp
)

type PField struct {
	Kind     pKind
	Msg      *PSchema
	Repeated bool
}

type PSchema struct {
	Fields map[int]*PField
}

// ProtoSchema derives the protobuf view of a struct type under cfg (which
// should have both proto options on; maps must be proto-tagged).
func ProtoSchema(t *TSpec, cfg Cfg) (*PSchema, error) {
	cache := map[string]*PSchema{}
	return protoSchema(t, cfg, cache)
}

func protoSchema(t *TSpec, cfg Cfg, cache map[string]*PSchema) (*PSchema, error) {
	if t.Kind == KNamed {
		if s, ok := cache[t.Name]; ok {
			return s, nil
		}
	}
	u := t.Under()
	if u.Kind != KStruct {
		return nil, fmt.Errorf("not a struct: %s", t)
	}
	s := &PSchema{Fields: map[int]*PField{}}
	if t.Kind == KNamed {
		cache[t.Name] = s
	}
	for _, f := range u.Fields {
		idx, opt, ok := f.Enc()
		if !ok {
			continue
		}
		pf, err := protoField(f.Type, opt, cfg, cache)
		if err != nil {
			return nil, fmt.Errorf("field %s: %w", f.Name, err)
		}
		s.Fields[idx] = pf
	}
	return s, nil
}

func protoField(t *TSpec, opt string, cfg Cfg, cache map[string]*PSchema) (*PField, error) {
	u := t.Under()
	switch u.Kind {
	case KBool, KInt, KInt8, KInt16, KInt32, KInt64, KUint, KUint8, KUint16, KUint32, KUint64:
		return &PField{Kind: pVarint}, nil
	case KFloat32:
		return &PField{Kind: pFixed32}, nil
	case KFloat64:
		return &PField{Kind: pFixed64}, nil
	case KString, KBytes:
		return &PField{Kind: pBytes}, nil
	case KTime:
		if !cfg.ProtoTime {
			return nil, fmt.Errorf("time without ProtoCompatibleTime is not a Timestamp")
		}
		return &PField{Kind: pTimestamp}, nil
	case KPtr:
		return protoField(u.Elem, opt, cfg, cache)
	case KStruct:
		m, err := protoSchema(t, cfg, cache)
		if err != nil {
			return nil, err
		}
		return &PField{Kind: pMessage, Msg: m}, nil
	case KSlice:
		e, err := protoField(u.Elem, "", cfg, cache)
		if err != nil {
			return nil, err
		}
		switch e.Kind {
		case pVarint:
			return &PField{Kind: pPackedVarint}, nil
		case pFixed32:
			return &PField{Kind: pPackedFixed32}, nil
		case pFixed64:
			return &PField{Kind: pPackedFixed64}, nil
		}
		if e.Repeated {
			return nil, fmt.Errorf("repeated of repeated has no protobuf form")
		}
		if !(cfg.ProtoArrays || opt == "proto") {
			return nil, fmt.Errorf("slice of length-delimited elements without the repeated form")
		}
		c := *e
		c.Repeated = true
		return &c, nil
	case KMap:
		if opt != "proto" {
			return nil, fmt.Errorf("map without the proto tag")
		}
		k, err := protoField(u.Key, "", cfg, cache)
		if err != nil {
			return nil, err
		}
		v, err := protoField(u.Elem, "", cfg, cache)
		if err != nil {
			return nil, err
		}
		if v.Repeated {
			return nil, fmt.Errorf("map value in repeated form")
		}
		return &PField{Kind: pMessage, Repeated: true, Msg: &PSchema{Fields: map[int]*PField{1: k, 2: v}}}, nil
	}
	return nil, fmt.Errorf("no protobuf form for %s", u.Kind)
}

// ProtoStats counts what the reader saw.
type ProtoStats struct {
	Fields, Messages, Repeated, Packed, Timestamps int
}

// ProtoRead checks that data is a well-formed protobuf message of the schema:
// only wire types 0, 1, 2, 5; field numbers >= 1 and known; wire type matching
// the declared kind; every length exact; singular fields at most once.
func ProtoRead(s *PSchema, data []byte, st *ProtoStats) error {
	st.Messages++
	seen := map[int]bool{}
	off := 0
	for off < len(data) {
		tag, n := binary.Uvarint(data[off:])
		if n <= 0 {
			return fmt.Errorf("bad tag varint at offset %d", off)
		}
		off += n
		num, wt := int(tag>>3), int(tag&7)
		if wt != 0 && wt != 1 && wt != 2 && wt != 5 {
			return fmt.Errorf("wire type %d (field %d) is not standard protobuf", wt, num)
		}
		if num < 1 {
			return fmt.Errorf("field number %d", num)
		}
		f, ok := s.Fields[num]
		if !ok {
			return fmt.Errorf("unknown field number %d", num)
		}
		if seen[num] && !f.Repeated {
			return fmt.Errorf("singular field %d occurs twice", num)
		}
		seen[num] = true
		st.Fields++
		if f.Repeated {
			st.Repeated++
		}
		var want int
		switch f.Kind {
		case pVarint:
			want = 0
		case pFixed32:
			want = 5
		case pFixed64:
			want = 1
		default:
			want = 2
		}
		if wt != want {
			return fmt.Errorf("field %d has wire type %d, its kind needs %d", num, wt, want)
		}
		switch wt {
		case 0:
			_, n := binary.Uvarint(data[off:])
			if n <= 0 {
				return fmt.Errorf("field %d: bad varint", num)
			}
			off += n
		case 1:
			if len(data)-off < 8 {
				return fmt.Errorf("field %d: truncated fixed64", num)
			}
			off += 8
		case 5:
			if len(data)-off < 4 {
				return fmt.Errorf("field %d: truncated fixed32", num)
			}
			off += 4
		case 2:
			l, n := binary.Uvarint(data[off:])
			if n <= 0 {
				return fmt.Errorf("field %d: bad length", num)
			}
			off += n
			if l > uint64(len(data)-off) {
				return fmt.Errorf("field %d: length %d exceeds the %d bytes left", num, l, len(data)-off)
			}
			body := data[off : off+int(l)]
			off += int(l)
			switch f.Kind {
			case pMessage:
				if err := ProtoRead(f.Msg, body, st); err != nil {
					return fmt.Errorf("field %d: %w", num, err)
				}
			case pTimestamp:
				st.Timestamps++
				if err := protoTimestamp(body); err != nil {
					return fmt.Errorf("field %d: %w", num, err)
				}
			case pPackedVarint:
				st.Packed++
				for p := 0; p < len(body); {
					_, n := binary.Uvarint(body[p:])
					if n <= 0 {
						return fmt.Errorf("field %d: bad packed varint", num)
					}
					p += n
				}
			case pPackedFixed32:
				st.Packed++
				if len(body)%4 != 0 {
					return fmt.Errorf("field %d: packed fixed32 of %d bytes", num, len(body))
				}
			case pPackedFixed64:
				st.Packed++
				if len(body)%8 != 0 {
					return fmt.Errorf("field %d: packed fixed64 of %d bytes", num, len(body))
				}
			}
		}
	}
	return nil
}

// protoTimestamp: google.protobuf.Timestamp {int64 seconds = 1; int32 nanos = 2}
// with plain (non zig-zag) varints, nanos in [0, 1e9).
func protoTimestamp(body []byte) error {
	off := 0
	seen := map[int]bool{}
	for off < len(body) {
		tag, n := binary.Uvarint(body[off:])
		if n <= 0 {
			return fmt.Errorf("timestamp: bad tag")
		}
		off += n
		num, wt := int(tag>>3), int(tag&7)
		if wt != 0 || (num != 1 && num != 2) || seen[num] {
			return fmt.Errorf("timestamp: unexpected field %d wire type %d", num, wt)
		}
		seen[num] = true
		v, n := binary.Uvarint(body[off:])
		if n <= 0 {
			return fmt.Errorf("timestamp: bad varint")
		}
		off += n
		if num == 2 && v >= 1000000000 {
			return fmt.Errorf("timestamp: nanos %d out of range (zig-zag?)", v)
		}
	}
	return nil
}

// ProtoTimestampValue decodes a Timestamp body the protobuf way.
func ProtoTimestampValue(body []byte) (sec int64, nsec int32, err error) {
	off := 0
	for off < len(body) {
		tag, n := binary.Uvarint(body[off:])
		if n <= 0 {
			return 0, 0, fmt.Errorf("bad tag")
		}
		off += n
		v, n := binary.Uvarint(body[off:])
		if n <= 0 {
			return 0, 0, fmt.Errorf("bad varint")
		}
		off += n
		switch tag >> 3 {
		case 1:
			sec = int64(v)
		case 2:
			nsec = int32(v)
		}
	}
	return sec, nsec, nil
}
