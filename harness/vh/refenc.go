package vh

// Reference encoder for the documented plenc wire format. Written from
// README.md, doc.go, the comments of plenccore/wire.go, the golden files under
// plenccodec/testdata and the property statements. It never calls into plenc.

import (
	"encoding/binary"
	"math"
)

// Cfg is the configuration of a Plenc instance as far as the wire format goes.
type Cfg struct {
	ProtoArrays bool `json:"pa,omitempty"`
	ProtoTime   bool `json:"pt,omitempty"`
}

func (c Cfg) String() string {
	s := "default"
	if c.ProtoArrays && c.ProtoTime {
		s = "arrays+time"
	} else if c.ProtoArrays {
		s = "arrays"
	} else if c.ProtoTime {
		s = "time"
	}
	return s
}

// Wire types.
const (
	WTVarInt = 0
	WT64     = 1
	WTLength = 2
	WTSlice  = 3
	WT32     = 5
)

func appendUvarint(b []byte, v uint64) []byte { return binary.AppendUvarint(b, v) }

func zigzag(v int64) uint64 { return uint64(v<<1) ^ uint64(v>>63) }

func appendTag(b []byte, index int, wt int) []byte {
	return appendUvarint(b, uint64(index)<<3|uint64(wt))
}

// RefOmit says whether a value in a field / map key / map value position is
// left out of the encoding.
func RefOmit(t *TSpec, v Val) bool {
	u := t.Under()
	switch u.Kind {
	case KBool:
		return !v.B
	case KInt, KInt8, KInt16, KInt32, KInt64:
		return v.I == 0
	case KUint, KUint8, KUint16, KUint32, KUint64:
		return v.U == 0
	case KFloat32:
		return math.Float32frombits(uint32(v.F)) == 0
	case KFloat64:
		return math.Float64frombits(v.F) == 0
	case KString, KBytes:
		return len(v.S) == 0
	case KTime:
		return v.T.IsZero()
	case KStruct:
		return false
	case KPtr, KMap:
		return v.Nil
	case KSlice:
		return v.Nil || len(v.L) == 0
	}
	if u.Kind.IsNull() {
		return v.Nil
	}
	if u.Kind == KUnsup {
		return true
	}
	panic("RefOmit: kind " + string(u.Kind))
}

// sliceForm describes how a slice type is encoded.
type sliceForm int

const (
	formPackedVarint sliceForm = iota
	formPackedFixed
	formCounted // WTSlice: count, then len-prefixed elements
	formProto   // repeated tagged elements
)

// scalarWT returns the wire type of the element once pointers are removed.
func RefWireType(t *TSpec, opt string, cfg Cfg) int {
	if cl := refCustom(t, opt); cl != nil {
		return cl.WT
	}
	u := t.Under()
	switch u.Kind {
	case KBool, KInt, KInt8, KInt16, KInt32, KInt64, KUint, KUint8, KUint16, KUint32, KUint64, KNullInt, KNullBool:
		return WTVarInt
	case KFloat32:
		return WT32
	case KFloat64, KNullFloat:
		return WT64
	case KString, KBytes, KTime, KStruct, KNullString, KNullTime:
		return WTLength
	case KPtr:
		return RefWireType(u.Elem, opt, cfg)
	case KSlice:
		switch RefSliceForm(u, opt, cfg) {
		case formCounted:
			return WTSlice
		}
		return WTLength
	case KMap:
		if opt == "proto" {
			return WTLength
		}
		return WTSlice
	}
	panic("RefWireType: kind " + string(u.Kind))
}

// RefSliceForm classifies the encoding of slice type u (already Under()'d).
func RefSliceForm(u *TSpec, opt string, cfg Cfg) sliceForm {
	switch RefWireType(u.Elem, "", cfg) {
	case WTVarInt:
		return formPackedVarint
	case WT32, WT64:
		return formPackedFixed
	case WTLength:
		if cfg.ProtoArrays || opt == "proto" {
			return formProto
		}
		return formCounted
	}
	panic("slice of counted elements has no encoding: " + u.String())
}

// IsProtoSlice reports whether t (after pointers) is a slice in repeated form.
func IsProtoSlice(t *TSpec, opt string, cfg Cfg) bool {
	u := t.Under()
	for u.Kind == KPtr {
		u = u.Elem.Under()
	}
	return u.Kind == KSlice && RefSliceForm(u, opt, cfg) == formProto
}

// CustomLeaf overrides how one type is encoded (C17: codecs registered on an
// instance).
type CustomLeaf struct {
	WT   int
	Body func(v Val) []byte
}

// RefCustom, when non-nil, is consulted for every type before the built-in
// rules. Properties run sequentially, so a package variable is enough.
var RefCustom func(t *TSpec, opt string) *CustomLeaf

func refCustom(t *TSpec, opt string) *CustomLeaf {
	if RefCustom == nil {
		return nil
	}
	return RefCustom(t, opt)
}

// RefBody is the untagged encoding of v (what Marshal emits at top level and
// what sits behind a length prefix).
func RefBody(b []byte, t *TSpec, opt string, v Val, cfg Cfg) []byte {
	if cl := refCustom(t, opt); cl != nil {
		return append(b, cl.Body(v)...)
	}
	u := t.Under()
	switch u.Kind {
	case KBool:
		if v.B {
			return append(b, 1)
		}
		return append(b, 0)
	case KInt, KInt8, KInt16, KInt32, KInt64:
		if opt == "flat" {
			var x uint64
			switch u.Kind.Bits() {
			case 8:
				x = uint64(uint8(v.I))
			case 16:
				x = uint64(uint16(v.I))
			case 32:
				x = uint64(uint32(v.I))
			default:
				x = uint64(v.I)
			}
			return appendUvarint(b, x)
		}
		return appendUvarint(b, zigzag(v.I))
	case KUint, KUint8, KUint16, KUint32, KUint64:
		return appendUvarint(b, v.U)
	case KFloat32:
		return binary.LittleEndian.AppendUint32(b, uint32(v.F))
	case KFloat64:
		return binary.LittleEndian.AppendUint64(b, v.F)
	case KString, KBytes:
		return append(b, v.S...)
	case KTime:
		return refTimeBody(b, v.T, cfg.ProtoTime)
	case KNullInt:
		return appendUvarint(b, zigzag(v.P.I))
	case KNullBool:
		return RefBody(b, T(KBool), "", *v.P, cfg)
	case KNullFloat:
		return binary.LittleEndian.AppendUint64(b, v.P.F)
	case KNullString:
		return append(b, v.P.S...)
	case KNullTime:
		// the null package always uses the zig-zag time form
		return refTimeBody(b, v.P.T, false)
	case KPtr:
		return RefBody(b, u.Elem, opt, *v.P, cfg)
	case KStruct:
		for i, f := range u.Fields {
			idx, fopt, ok := f.Enc()
			if !ok {
				continue
			}
			b = RefField(b, idx, f.Type, fopt, v.L[i], cfg)
		}
		return b
	case KSlice:
		switch RefSliceForm(u, opt, cfg) {
		case formPackedVarint:
			for _, e := range v.L {
				if e.Nil { // nil pointers to integers are dropped
					continue
				}
				b = RefBody(b, u.Elem, "", e, cfg)
			}
			return b
		case formPackedFixed:
			for _, e := range v.L {
				b = RefBody(b, u.Elem, "", e, cfg)
			}
			return b
		case formCounted:
			b = appendUvarint(b, uint64(len(v.L)))
			for _, e := range v.L {
				var eb []byte
				if !e.Nil || u.Elem.Under().Kind != KPtr { // nil pointer element: empty body
					eb = RefBody(nil, u.Elem, "", e, cfg)
				}
				b = appendUvarint(b, uint64(len(eb)))
				b = append(b, eb...)
			}
			return b
		case formProto:
			// no framing of its own: elements back to back (only meaningful with a tag)
			for _, e := range v.L {
				if e.Nil && u.Elem.Under().Kind == KPtr {
					continue
				}
				b = RefBody(b, u.Elem, "", e, cfg)
			}
			return b
		}
	case KMap:
		b = appendUvarint(b, uint64(len(v.M)))
		for _, kv := range v.M {
			eb := refMapEntry(nil, u, kv, cfg)
			b = appendUvarint(b, uint64(len(eb)))
			b = append(b, eb...)
		}
		return b
	}
	panic("RefBody: kind " + string(u.Kind))
}

func refTimeBody(b []byte, tv *TimeVal, proto bool) []byte {
	if tv == nil {
		tv = &TimeVal{Sec: ZeroUnix}
	}
	if proto {
		b = appendTag(b, 1, WTVarInt)
		b = appendUvarint(b, uint64(tv.Sec))
		b = appendTag(b, 2, WTVarInt)
		return appendUvarint(b, uint64(uint32(tv.Nsec)))
	}
	b = appendTag(b, 1, WTVarInt)
	b = appendUvarint(b, zigzag(tv.Sec))
	b = appendTag(b, 2, WTVarInt)
	return appendUvarint(b, zigzag(int64(tv.Nsec)))
}

func refMapEntry(b []byte, u *TSpec, kv KV, cfg Cfg) []byte {
	b = RefField(b, 1, u.Key, "", kv.K, cfg)
	return RefField(b, 2, u.Elem, "", kv.V, cfg)
}

// RefField appends the tagged encoding of a field (nothing when omitted).
func RefField(b []byte, index int, t *TSpec, opt string, v Val, cfg Cfg) []byte {
	if RefOmit(t, v) {
		return b
	}
	u := t.Under()
	// look through pointers for the container forms
	inner, iv := u, v
	for inner.Kind == KPtr {
		iv = *iv.P
		inner = inner.Elem.Under()
	}
	if inner.Kind == KSlice && RefSliceForm(inner, opt, cfg) == formProto {
		for _, e := range iv.L {
			if e.Nil && inner.Elem.Under().Kind == KPtr {
				continue
			}
			b = refFieldAlways(b, index, inner.Elem, "", e, cfg)
		}
		return b
	}
	if inner.Kind == KMap && opt == "proto" {
		for _, kv := range iv.M {
			eb := refMapEntry(nil, inner, kv, cfg)
			b = appendTag(b, index, WTLength)
			b = appendUvarint(b, uint64(len(eb)))
			b = append(b, eb...)
		}
		return b
	}
	return refFieldAlways(b, index, t, opt, v, cfg)
}

// refFieldAlways writes tag + framing + body regardless of omission rules.
func refFieldAlways(b []byte, index int, t *TSpec, opt string, v Val, cfg Cfg) []byte {
	wt := RefWireType(t, opt, cfg)
	b = appendTag(b, index, wt)
	body := RefBody(nil, t, opt, v, cfg)
	if wt == WTLength {
		b = appendUvarint(b, uint64(len(body)))
	}
	return append(b, body...)
}

// RefEncode is what Marshal(nil, &v) must produce for a top-level value.
func RefEncode(t *TSpec, v Val, cfg Cfg) []byte {
	if RefOmit(t, v) {
		return nil
	}
	return RefBody(nil, t, "", v, cfg)
}

// RefStructPermuted encodes a struct value with its top-level fields written
// in the order given by perm (indices into the encoded-field list). Nested
// structs are permuted with the same rule (reversed when rev is set).
func RefStructPermuted(t *TSpec, v Val, cfg Cfg, order func(n int, depth int) []int) []byte {
	var enc func(t *TSpec, opt string, v Val, depth int) []byte
	var field func(b []byte, index int, t *TSpec, opt string, v Val, depth int) []byte
	enc = func(t *TSpec, opt string, v Val, depth int) []byte {
		u := t.Under()
		switch u.Kind {
		case KStruct:
			type ef struct {
				idx int
				opt string
				i   int
			}
			var efs []ef
			for i, f := range u.Fields {
				if idx, fopt, ok := f.Enc(); ok {
					efs = append(efs, ef{idx, fopt, i})
				}
			}
			// one piece per field occurrence: repeated-form fields contribute one piece per
			// element / entry, which may be interleaved with other fields as long as their
			// relative order is kept
			type piece struct {
				field int
				b     []byte
			}
			var pieces []piece
			for j, e := range efs {
				ft, fv := u.Fields[e.i].Type, v.L[e.i]
				inner, iv := ft.Under(), fv
				for inner.Kind == KPtr && !iv.Nil {
					iv = *iv.P
					inner = inner.Elem.Under()
				}
				switch {
				case !RefOmit(ft, fv) && inner.Kind == KSlice && RefSliceForm(inner, e.opt, cfg) == formProto:
					for _, el := range iv.L {
						if el.Nil && inner.Elem.Under().Kind == KPtr {
							continue
						}
						body := enc(inner.Elem, "", el, depth+1)
						pb := appendTag(nil, e.idx, WTLength)
						pb = appendUvarint(pb, uint64(len(body)))
						pieces = append(pieces, piece{j, append(pb, body...)})
					}
				case !RefOmit(ft, fv) && inner.Kind == KMap && e.opt == "proto":
					for _, kv := range iv.M {
						var eb []byte
						eb = field(eb, 1, inner.Key, "", kv.K, depth+1)
						eb = field(eb, 2, inner.Elem, "", kv.V, depth+1)
						pb := appendTag(nil, e.idx, WTLength)
						pb = appendUvarint(pb, uint64(len(eb)))
						pieces = append(pieces, piece{j, append(pb, eb...)})
					}
				default:
					if fb := field(nil, e.idx, ft, e.opt, fv, depth+1); len(fb) > 0 {
						pieces = append(pieces, piece{j, fb})
					}
				}
			}
			perm := order(len(pieces), depth)
			shuffled := make([]piece, len(pieces))
			for k, j := range perm {
				shuffled[k] = pieces[j]
			}
			// restore the relative order of pieces that belong to the same field
			next := map[int]int{}
			byField := map[int][]piece{}
			for _, pc := range pieces {
				byField[pc.field] = append(byField[pc.field], pc)
			}
			var b []byte
			for _, pc := range shuffled {
				q := byField[pc.field][next[pc.field]]
				next[pc.field]++
				b = append(b, q.b...)
			}
			return b
		case KPtr:
			return enc(u.Elem, opt, *v.P, depth)
		case KSlice:
			if RefSliceForm(u, opt, cfg) == formCounted {
				b := appendUvarint(nil, uint64(len(v.L)))
				for _, e := range v.L {
					var eb []byte
					if !e.Nil || u.Elem.Under().Kind != KPtr {
						eb = enc(u.Elem, "", e, depth)
					}
					b = appendUvarint(b, uint64(len(eb)))
					b = append(b, eb...)
				}
				return b
			}
		case KMap:
			b := appendUvarint(nil, uint64(len(v.M)))
			for _, kv := range v.M {
				var eb []byte
				eb = field(eb, 1, u.Key, "", kv.K, depth)
				eb = field(eb, 2, u.Elem, "", kv.V, depth)
				b = appendUvarint(b, uint64(len(eb)))
				b = append(b, eb...)
			}
			return b
		}
		return RefBody(nil, t, opt, v, cfg)
	}
	field = func(b []byte, index int, t *TSpec, opt string, v Val, depth int) []byte {
		if RefOmit(t, v) {
			return b
		}
		inner, iv := t.Under(), v
		for inner.Kind == KPtr {
			iv = *iv.P
			inner = inner.Elem.Under()
		}
		if inner.Kind == KSlice && RefSliceForm(inner, opt, cfg) == formProto {
			for _, e := range iv.L {
				if e.Nil && inner.Elem.Under().Kind == KPtr {
					continue
				}
				body := enc(inner.Elem, "", e, depth)
				b = appendTag(b, index, WTLength)
				b = appendUvarint(b, uint64(len(body)))
				b = append(b, body...)
			}
			return b
		}
		if inner.Kind == KMap && opt == "proto" {
			for _, kv := range iv.M {
				var eb []byte
				eb = field(eb, 1, inner.Key, "", kv.K, depth)
				eb = field(eb, 2, inner.Elem, "", kv.V, depth)
				b = appendTag(b, index, WTLength)
				b = appendUvarint(b, uint64(len(eb)))
				b = append(b, eb...)
			}
			return b
		}
		wt := RefWireType(t, opt, cfg)
		b = appendTag(b, index, wt)
		body := enc(t, opt, v, depth)
		if wt == WTLength {
			b = appendUvarint(b, uint64(len(body)))
		}
		return append(b, body...)
	}
	if RefOmit(t, v) {
		return nil
	}
	return enc(t, "", v, 0)
}
