#!/usr/bin/env python3
"""Regenerates MANIFEST.json from checks_config.PROPS (run after editing it)."""
import json, os, subprocess
HERE = os.path.dirname(os.path.abspath(__file__))
import sys
sys.path.insert(0, HERE)
from checks_config import PROPS, NOT_APPLICABLE, HOOK_COMMITS

ALL = [json.loads(l)["id"] for l in open(os.path.join(HERE, "properties.jsonl"))]
checks = []
for pid in ALL:
    if pid not in PROPS:
        continue
    c = PROPS[pid]
    checks.append({
        "property_id": pid,
        "quick_cmd": f"./check {pid} quick",
        "thorough_cmd": f"./check {pid} thorough",
        "evidence_file": f"evidence/{pid}.json",
        "replay_cmd_template": f"./check {pid} --replay {{path}}",
        "engine": "harness",
        "level_claimed": {
            "category": "exploration",
            "text": c.get("level_text", "Generated-input search against an explicit oracle; holds on everything generated, establishes nothing beyond it."),
            "design_ref": c.get("design_ref", "DESIGN.md section 3 " + pid),
        },
        "level_note": c.get("level_note", "Trusts the harness's own oracles (reference encoder / walker / merge model / JSON model, self-tested against the golden files), the Go toolchain go1.23.5 and rapid v1.3.0. Exploration only: absence of violations on the generated cases."),
        "technique": c.get("technique", "property-based testing (rapid) against an independent oracle"),
    })
na = [{"property_id": p, "reason": NOT_APPLICABLE[p]} for p in ALL if p not in PROPS]
m = {
    "version": 1,
    "setup_cmd": "./check --build",
    "hooks": {
        "guard": "verif",
        "enable": "go test -c -tags verif (done by ./check on every run, from /repo's working tree)",
        "baseline_off_cmd": "cd /repo && go test -mod=mod -json -vet=off -count=1 -timeout 25m ./...",
        "source_commits": HOOK_COMMITS,
        "add_only": True,
    },
    "engines": [{"name": "harness", "path": "harness/", "serves_properties": [c["property_id"] for c in checks],
                 "kind_free_text": "Go test binary (pgregory.net/rapid v1.3.0 generators + bounded enumerations + native go fuzzing in the thorough tier) driven by ./check (python3)"}],
    "checks": checks,
    "notes": "All checks decide by generated-input search against explicit oracles (property-based testing / fuzzing). See DESIGN.md.",
    "not_applicable": na,
}
json.dump(m, open(os.path.join(HERE, "MANIFEST.json"), "w"), indent=1)
print("wrote MANIFEST.json:", len(checks), "checks,", len(na), "not claimed")
