#!/bin/bash
# usage: tools/multiseed.sh "<ids>" <seed>...   runs the quick tier of the given checks at several seeds
cd "$(dirname "$0")/.."
ids=$1; shift
for s in "$@"; do
  for id in $ids; do
    out=$(VERIF_SEED=$s ./check $id quick 2>&1); rc=$?
    echo "seed $s $id rc=$rc $(echo "$out" | grep -E "VIOLATION|INCONCLUSIVE" | tr '\n' ' ' | cut -c1-300)"
  done
done
