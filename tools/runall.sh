#!/bin/bash
# runs every registered check at the given tier (default quick) and prints one line each
tier=${1:-quick}
cd "$(dirname "$0")/.."
for id in $(python3 -c "import json;print(' '.join(c['property_id'] for c in json.load(open('MANIFEST.json'))['checks']))"); do
  start=$(date +%s)
  out=$(./check $id $tier 2>&1); rc=$?
  echo "$id rc=$rc $(( $(date +%s)-start ))s $(echo "$out" | grep -E "^$id $tier:|VIOLATION|KNOWN-FINDING|INCONCLUSIVE" | tr '\n' ' ' | cut -c1-300)"
done
