#!/usr/bin/env python3
"""finding.py fixed <property> <commit> <id> <replay|-> <what...>   |   finding.py open <property> <class> <id> <replay|-> <what...>"""
import json, sys
p='/verif/known_findings.json'
d=json.load(open(p))
kind, prop, x, fid, replay = sys.argv[1:6]
what=" ".join(sys.argv[6:])
e={"id":fid,"property":prop,"status":kind,"what":what}
if replay!="-": e["replay"]=replay
if kind=="fixed":
    e["commit"]=x; e["record"]=f"fixed: property={prop} {x} {what}"
else:
    e["class"]=x
d["findings"]=[f for f in d["findings"] if f["id"]!=fid]+[e]
json.dump(d,open(p,"w"),indent=1)
print("recorded",fid)
