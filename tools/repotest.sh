#!/bin/bash
# runs /repo's suite (guard off) and prints failing tests; TestDescriptor is flaky at the pinned commit (map order)
export GOFLAGS=-mod=mod GOPROXY=off GOSUMDB=off GOTOOLCHAIN=local
cd ${1:-/repo} && go build ./... && go test -vet=off -count=1 ./... 2>&1 | grep -E '^(--- FAIL|FAIL|panic)' | sort | uniq -c
echo "repotest done"
