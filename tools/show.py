#!/usr/bin/env python3
"""Pretty-print a failure/replay file (dev aid)."""
import json, sys, base64
def ts(t):
    if t is None: return "?"
    k=t["k"]
    if k=="ptr": return "*"+ts(t["e"])
    if k=="slice": return "[]"+ts(t["e"])
    if k=="map": return "map["+ts(t["key"])+"]"+ts(t["e"])
    if k=="struct":
        fs=[]
        for f in t.get("f",[]):
            tag=[]
            if f.get("hp"): tag.append('plenc:"%s"'%f.get("plenc",""))
            if f.get("json"): tag.append('json:"%s"'%f["json"])
            fs.append("%s %s%s"%(f["name"],ts(f["t"]),(" `"+" ".join(tag)+"`") if tag else ""))
        return "struct{"+"; ".join(fs)+"}"
    if k in("named","unsupported"): return t.get("n","?")
    return k
def vs(v):
    if not isinstance(v,dict): return repr(v)
    if v.get("nil"): return "nil"
    out=[]
    for k,x in v.items():
        if k=="s": out.append("s=%r"%base64.b64decode(x))
        elif k=="p": out.append("&"+vs(x))
        elif k=="l": out.append("["+", ".join(vs(e) for e in x)+"]")
        elif k=="m": out.append("{"+", ".join(vs(e["k"])+": "+vs(e["v"]) for e in x)+"}")
        elif k=="f": out.append("f=%#x"%x)
        else: out.append("%s=%s"%(k,json.dumps(x)))
    return "("+" ".join(out)+")" if out else "0"
def walk(x, depth=0):
    if isinstance(x,dict):
        if "k" in x and isinstance(x.get("k"),str) and x["k"] in ("ptr","slice","map","struct","named") or ("k" in x and len(x)<=2 and isinstance(x["k"],str)):
            return ts(x)
        return {k:(walk(v,depth+1)) for k,v in x.items()}
    if isinstance(x,list): return [walk(e,depth+1) for e in x]
    return x
d=json.load(open(sys.argv[1]))
print("property",d.get("property"),"check",d.get("check"))
if d.get("failure"): print("CLASS",d["failure"]["class"]); print(d["failure"]["msg"][:3000])
c=d["case"]
for k,v in c.items():
    if isinstance(v,dict) and "k" in v: print(k,":",ts(v))
    elif k in("vals","Vals") : 
        for i,e in enumerate(v): print(" val",i,vs(e))
    elif isinstance(v,dict) and (set(v.keys()) & {"nil","l","m","p","s","i","u","b","f","t"}): print(k,":",vs(v))
    else: print(k,":",json.dumps(walk(v))[:2000])
